package PKGNAME

// Abstract cryptography shared by several harness packages: BLS objects are identified by a
// 64-bit tag, verification and derivation are uninterpreted functions of the tags.

import (
	"github.com/shutter-network/shutter/shlib/shcrypto"
)

//verif:stub github.com/shutter-network/shutter/shlib/shcrypto.ComputeEpochID
func vfStubComputeEpochID(b []byte) *shcrypto.EpochID {
	return vfTagged[shcrypto.EpochID](vfUFU64("epoch-id", b))
}

//verif:stub github.com/shutter-network/shutter/shlib/shcrypto.VerifyEpochSecretKeyShare
func vfStubVerifyShare(share *shcrypto.EpochSecretKeyShare, pk *shcrypto.EonPublicKeyShare, id *shcrypto.EpochID) bool {
	return vfUFBool("verify-share", vfTagOf(share), vfTagOf(pk), vfTagOf(id))
}

//verif:stub github.com/shutter-network/shutter/shlib/shcrypto.VerifyEpochSecretKey
func vfStubVerifyKey(key *shcrypto.EpochSecretKey, pk *shcrypto.EonPublicKey, identity []byte) (bool, error) {
	if vfUFBool("verify-key-errors", vfTagOf(key), vfTagOf(pk), identity) {
		return false, vfErr("verify-key")
	}
	return vfUFBool("verify-key", vfTagOf(key), vfTagOf(pk), identity), nil
}

//verif:stub (*github.com/shutter-network/shutter/shlib/shcrypto.EpochSecretKeyShare).Unmarshal
func vfStubShareUnmarshal(s *shcrypto.EpochSecretKeyShare, b []byte) error {
	if !vfUFBool("share-wellformed", b) {
		return vfErr("share-unmarshal")
	}
	*s = *vfTagged[shcrypto.EpochSecretKeyShare](vfUFU64("share-of-bytes", b))
	return nil
}

//verif:stub (*github.com/shutter-network/shutter/shlib/shcrypto.EpochSecretKey).Unmarshal
func vfStubKeyUnmarshal(k *shcrypto.EpochSecretKey, b []byte) error {
	if !vfUFBool("key-wellformed", b) {
		return vfErr("key-unmarshal")
	}
	*k = *vfTagged[shcrypto.EpochSecretKey](vfUFU64("key-of-bytes", b))
	return nil
}

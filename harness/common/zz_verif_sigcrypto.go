package PKGNAME

// Abstract ECDSA recovery and SSZ merkleisation, shared by the Gnosis and Shutter-service
// harnesses. The generated HashTreeRootWith code of the repository is executed for real against a
// recording hash walker; the walker folds everything it is fed into an uninterpreted value.

import (
	"crypto/ecdsa"
	"math/big"

	"github.com/ethereum/go-ethereum/common"
	ssz "github.com/ferranbt/fastssz"
)

type vfWalker struct{ acc uint64 }

func (w *vfWalker) Hash() []byte            { return nil }
func (w *vfWalker) AppendUint8(i uint8)     { w.acc = vfUFU64("ssz-u8", w.acc, i) }
func (w *vfWalker) AppendUint64(i uint64)   { w.acc = vfUFU64("ssz-u64", w.acc, i) }
func (w *vfWalker) AppendBytes32(b []byte)  { w.acc = vfUFU64("ssz-bytes", w.acc, b) }
func (w *vfWalker) PutUint64(i uint64)      { w.acc = vfUFU64("ssz-u64", w.acc, i) }
func (w *vfWalker) PutUint32(i uint32)      { w.acc = vfUFU64("ssz-u32", w.acc, i) }
func (w *vfWalker) PutUint16(i uint16)      { w.acc = vfUFU64("ssz-u16", w.acc, i) }
func (w *vfWalker) PutUint8(i uint8)        { w.acc = vfUFU64("ssz-u8", w.acc, i) }
func (w *vfWalker) FillUpTo32()             {}
func (w *vfWalker) Append(i []byte)         { w.acc = vfUFU64("ssz-bytes", w.acc, i) }
func (w *vfWalker) PutBitlist(bb []byte, maxSize uint64) {
	w.acc = vfUFU64("ssz-bitlist", w.acc, bb, maxSize)
}
func (w *vfWalker) PutBool(b bool)     { w.acc = vfUFU64("ssz-bool", w.acc, b) }
func (w *vfWalker) PutBytes(b []byte)  { w.acc = vfUFU64("ssz-bytes", w.acc, b) }
func (w *vfWalker) Index() int         { return 0 }
func (w *vfWalker) Merkleize(indx int) { w.acc = vfUFU64("ssz-merkleize", w.acc) }
func (w *vfWalker) MerkleizeWithMixin(indx int, num, limit uint64) {
	w.acc = vfUFU64("ssz-mixin", w.acc, num, limit)
}

//verif:stub github.com/ferranbt/fastssz.HashWithDefaultHasher
func vfStubHashWithDefaultHasher(v ssz.HashRoot) ([32]byte, error) {
	w := &vfWalker{}
	if err := v.HashTreeRootWith(w); err != nil {
		return [32]byte{}, err
	}
	var out [32]byte
	copy(out[:], vfUFBytesN("ssz-root", 32, w.acc))
	return out, nil
}

//verif:stub github.com/ethereum/go-ethereum/crypto.SigToPub
func vfStubSigToPub(hash, sig []byte) (*ecdsa.PublicKey, error) {
	if !vfUFBool("sig-recoverable", hash, sig) {
		return nil, vfErr("sigtopub")
	}
	return &ecdsa.PublicKey{X: new(big.Int).SetUint64(vfUFU64("sig-recover", hash, sig))}, nil
}

//verif:stub github.com/ethereum/go-ethereum/crypto.PubkeyToAddress
func vfStubPubkeyToAddress(p ecdsa.PublicKey) common.Address {
	var a common.Address
	copy(a[:], vfUFBytesN("addr-of-pub", 20, p.X.Uint64()))
	return a
}

// vfRecovered is the reference counterpart of SigToPub+PubkeyToAddress.
func vfRecovered(hash [32]byte, sig []byte) (common.Address, bool) {
	var a common.Address
	if !vfUFBool("sig-recoverable", hash[:], sig) {
		return a, false
	}
	copy(a[:], vfUFBytesN("addr-of-pub", 20, vfUFU64("sig-recover", hash[:], sig)))
	return a, true
}

package gnosisaccessnode

import (
	"bytes"
	"context"
	"crypto/ecdsa"
	"math/big"

	"github.com/ethereum/go-ethereum/common"
	"github.com/jackc/pgx/v4"
	pubsub "github.com/libp2p/go-libp2p-pubsub"

	"github.com/shutter-network/shutter/shlib/puredkg"
	"github.com/shutter-network/shutter/shlib/shcrypto"

	obskeyperdatabase "github.com/shutter-network/rolling-shutter/rolling-shutter/chainobserver/db/keyper"
	corekeyperdatabase "github.com/shutter-network/rolling-shutter/rolling-shutter/keyper/database"
	"github.com/shutter-network/rolling-shutter/rolling-shutter/keyper/epochkghandler"
	"github.com/shutter-network/rolling-shutter/rolling-shutter/keyperimpl/gnosis"
	"github.com/shutter-network/rolling-shutter/rolling-shutter/keyperimpl/gnosis/database"
	"github.com/shutter-network/rolling-shutter/rolling-shutter/keyperimpl/gnosis/gnosisssztypes"
	"github.com/shutter-network/rolling-shutter/rolling-shutter/medley/configuration"
	"github.com/shutter-network/rolling-shutter/rolling-shutter/medley/encodeable/keys"
	"github.com/shutter-network/rolling-shutter/rolling-shutter/medley/identitypreimage"
	"github.com/shutter-network/rolling-shutter/rolling-shutter/medley/retry"
	"github.com/shutter-network/rolling-shutter/rolling-shutter/medley/service"
	"github.com/shutter-network/rolling-shutter/rolling-shutter/p2p"
	"github.com/shutter-network/rolling-shutter/rolling-shutter/p2pmsg"
	"github.com/shutter-network/rolling-shutter/rolling-shutter/shdb"
)

// C03 (Gnosis flavour, single-hop lemmas): what the Gnosis messaging middleware and the Gnosis
// handlers of an honest keyper emit is accepted by the Gnosis validators of an honest peer and by
// the access node, from an arbitrary state of the signature and key tables that satisfies the
// storage invariant (only validated material is stored).

type vfSigRow struct {
	slot, keyper, txPointer int64
	hash                    [32]byte
	sig                     [65]byte
}

type vfKeyRowG struct {
	epochID [52]byte
	key     [2]byte
}

func vfAnd(a, b bool) bool { return vfIte(a, b, false) } // no short-circuit, no fork

var vfG3 struct {
	keypers   []common.Address
	threshold int32
	eon       uint64
	instance  uint64
	eonPK     uint64
	trigger   *database.CurrentDecryptionTrigger
	sigs      []vfSigRow
	keys      []vfKeyRowG
	pointer   int64
	pointerOK bool
	maxKeys   uint64 // MaxNumKeysPerMessage, the same on every node
}

// fake transport capturing what the middleware hands to libp2p
type vfMessaging struct {
	sent     []p2pmsg.Message
	handlers []p2p.MessageHandler
}

func (m *vfMessaging) Start(context.Context, service.Runner) error { return nil }
func (m *vfMessaging) SendMessage(ctx context.Context, msg p2pmsg.Message, _ ...retry.Option) error {
	m.sent = append(m.sent, msg)
	return nil
}
func (m *vfMessaging) AddValidator(p2p.ValidatorFunc, ...p2pmsg.Message) {}
func (m *vfMessaging) AddMessageHandler(mhs ...p2p.MessageHandler)        { m.handlers = append(m.handlers, mhs...) }

//verif:stub (*github.com/shutter-network/rolling-shutter/rolling-shutter/chainobserver/db/keyper.Queries).GetKeyperSetByKeyperConfigIndex sql=getKeyperSetByKeyperConfigIndex
func vfStubKeyperSet3(q *obskeyperdatabase.Queries, ctx context.Context, idx int64) (obskeyperdatabase.KeyperSet, error) {
	if idx != int64(vfG3.eon) {
		return obskeyperdatabase.KeyperSet{}, pgx.ErrNoRows
	}
	return obskeyperdatabase.KeyperSet{KeyperConfigIndex: idx, Keypers: shdb.EncodeAddresses(vfG3.keypers), Threshold: vfG3.threshold}, nil
}

//verif:stub (*github.com/shutter-network/rolling-shutter/rolling-shutter/keyperimpl/gnosis/database.Queries).GetCurrentDecryptionTrigger sql=getCurrentDecryptionTrigger
func vfStubTrigger3(q *database.Queries, ctx context.Context, eon int64) (database.CurrentDecryptionTrigger, error) {
	if vfG3.trigger == nil || eon != vfG3.trigger.Eon {
		return database.CurrentDecryptionTrigger{}, pgx.ErrNoRows
	}
	return *vfG3.trigger, nil
}

//verif:stub (*github.com/shutter-network/rolling-shutter/rolling-shutter/keyperimpl/gnosis/database.Queries).InsertSlotDecryptionSignature sql=insertSlotDecryptionSignature
func vfStubInsertSig3(q *database.Queries, ctx context.Context, arg database.InsertSlotDecryptionSignatureParams) error {
	if arg.Eon != int64(vfG3.eon) {
		return nil
	}
	conflict := false // ON CONFLICT DO NOTHING, primary key (eon, slot, keyper_index)
	for _, r := range vfG3.sigs {
		conflict = vfIte(vfAnd(r.slot == arg.Slot, r.keyper == arg.KeyperIndex), true, conflict)
	}
	if conflict {
		return nil
	}
	row := vfSigRow{slot: arg.Slot, keyper: arg.KeyperIndex, txPointer: arg.TxPointer}
	vfAssert(len(arg.IdentitiesHash) == 32, "identities-hash-is-32-bytes")
	copy(row.hash[:], arg.IdentitiesHash)
	if len(arg.Signature) != 65 {
		vfReach("odd-signature-length-stored")
	}
	copy(row.sig[:], arg.Signature)
	vfG3.sigs = append(vfG3.sigs, row)
	return nil
}

//verif:stub (*github.com/shutter-network/rolling-shutter/rolling-shutter/keyperimpl/gnosis/database.Queries).GetSlotDecryptionSignatures sql=getSlotDecryptionSignatures
func vfStubGetSigs3(q *database.Queries, ctx context.Context, arg database.GetSlotDecryptionSignaturesParams) ([]database.SlotDecryptionSignature, error) {
	var rows []database.SlotDecryptionSignature
	if arg.Eon != int64(vfG3.eon) {
		return rows, nil
	}
	// WHERE ... ORDER BY keyper_index ASC LIMIT $5; at most one row per (slot, keyper)
	for k := int64(0); k < int64(len(vfG3.keypers)); k++ {
		found := false
		var sig [65]byte
		var hash [32]byte
		for _, r := range vfG3.sigs {
			m := vfAnd(vfAnd(r.keyper == k, r.slot == arg.Slot), vfAnd(r.txPointer == arg.TxPointer, bytes.Equal(r.hash[:], arg.IdentitiesHash)))
			found = vfIte(m, true, found)
			sig = vfIte(m, r.sig, sig)
			hash = vfIte(m, r.hash, hash)
		}
		if vfAnd(found, int32(len(rows)) < arg.Limit) {
			sg, hs := sig, hash
			rows = append(rows, database.SlotDecryptionSignature{Eon: arg.Eon, Slot: arg.Slot, KeyperIndex: k, TxPointer: arg.TxPointer, IdentitiesHash: hs[:], Signature: sg[:]})
		}
	}
	return rows, nil
}

//verif:stub (*github.com/shutter-network/rolling-shutter/rolling-shutter/keyperimpl/gnosis/database.Queries).SetTxPointer sql=setTxPointer
func vfStubSetTxPointer3(q *database.Queries, ctx context.Context, arg database.SetTxPointerParams) error {
	vfG3.pointer, vfG3.pointerOK = arg.Value, arg.Age.Valid && arg.Age.Int64 == 0
	return nil
}

//verif:stub (*github.com/shutter-network/rolling-shutter/rolling-shutter/keyper/database.Queries).GetDecryptionKey sql=getDecryptionKey
func vfStubGetKeyG3(q *corekeyperdatabase.Queries, ctx context.Context, arg corekeyperdatabase.GetDecryptionKeyParams) (corekeyperdatabase.DecryptionKey, error) {
	found := false
	var key [2]byte
	for _, r := range vfG3.keys {
		m := vfAnd(arg.Eon == int64(vfG3.eon), bytes.Equal(r.epochID[:], arg.EpochID))
		found = vfIte(m, true, found)
		key = vfIte(m, r.key, key)
	}
	if !found {
		return corekeyperdatabase.DecryptionKey{}, pgx.ErrNoRows
	}
	kk := key
	return corekeyperdatabase.DecryptionKey{Eon: arg.Eon, EpochID: arg.EpochID, DecryptionKey: kk[:]}, nil
}

// Keccak256 over a list of byte strings: fold into an uninterpreted accumulator.
//
//verif:stub github.com/ethereum/go-ethereum/crypto.Keccak256
func vfStubKeccak3(data ...[]byte) []byte {
	acc := uint64(0)
	for _, d := range data {
		acc = vfUFU64("keccak-absorb", acc, d)
	}
	return vfUFBytesN("keccak-out", 32, acc)
}

// ECDSA signing: the signature is an uninterpreted function of hash and key; the scheme's
// correctness (recovering from an honest signature yields the signer's address) is an axiom.
//
//verif:stub github.com/ethereum/go-ethereum/crypto.Sign
func vfStubSign3(hash []byte, key *ecdsa.PrivateKey) ([]byte, error) {
	k := key.D.Uint64()
	sig := vfUFBytesN("ecdsa-sign", 65, hash, k)
	vfAxiom(vfUFBool("sig-recoverable", hash, sig))
	vfAxiom(bytes.Equal(vfUFBytesN("addr-of-pub", 20, vfUFU64("sig-recover", hash, sig)), vfUFBytesN("addr-of-priv", 20, k)))
	return sig, nil
}

func vfG3Setup(n int) {
	g := &vfG3
	g.keypers = nil
	for i := 0; i < n; i++ {
		a := vfAny[common.Address]("keyper")
		for _, o := range g.keypers {
			vfAssume(a != o)
		}
		g.keypers = append(g.keypers, a)
	}
	g.threshold = vfI32("threshold")
	vfAssume(g.threshold >= 1 && int(g.threshold) <= n)
	g.eon, g.instance, g.eonPK = vfU64("eon"), vfU64("instance"), vfU64("eonpk")
	vfAssume(g.eon < 1<<31)
	g.sigs, g.keys, g.trigger = nil, nil, nil
	g.maxKeys = vfU64("max-keys-per-message")
	vfAssume(g.maxKeys >= 1 && g.maxKeys <= 4)
}

func vfIdentities(k int) []identitypreimage.IdentityPreimage {
	vfAssume(uint64(k) <= vfG3.maxKeys) // honest triggers stay within the configured message size
	var ids []identitypreimage.IdentityPreimage
	for i := 0; i < k; i++ {
		id := identitypreimage.IdentityPreimage(vfBytesN("identity", 52))
		if i > 0 {
			vfAssume(bytes.Compare(ids[i-1], id) <= 0)
		}
		ids = append(ids, id)
	}
	return ids
}

func vfHashOf(ids []identitypreimage.IdentityPreimage) []byte {
	var bs [][]byte
	for _, id := range ids {
		bs = append(bs, id)
	}
	return vfStubKeccak3(bs...)
}

func vfSigValid(slot, txPointer uint64, ids []identitypreimage.IdentityPreimage, sig []byte, signer common.Address) bool {
	d, err := gnosisssztypes.NewSlotDecryptionSignatureData(vfG3.instance, vfG3.eon, slot, txPointer, ids)
	if err != nil {
		return false
	}
	h, err := d.HashTreeRoot()
	if err != nil {
		return false
	}
	a, ok := vfRecovered(h, sig)
	return vfAnd(ok, a == signer)
}

func vfGnosisConfig(keyTag uint64) *gnosis.Config {
	return &gnosis.Config{
		InstanceID: vfG3.instance,
		Gnosis: &gnosis.GnosisConfig{
			Node:                 &configuration.EthnodeConfig{PrivateKey: &keys.ECDSAPrivate{Key: &ecdsa.PrivateKey{D: new(big.Int).SetUint64(keyTag)}}},
			SecondsPerSlot:       vfU64("seconds-per-slot"),
			GenesisSlotTimestamp: vfU64("genesis-slot-timestamp"),
		},
		MaxNumKeysPerMessage: vfG3.maxKeys,
	}
}

func H_C03_gnosis_shares_accepted_by_peer() {
	n := 2 + vfLen("extra-keypers", vfParam("keypers", 3)-2)
	vfG3Setup(n)
	g := &vfG3
	p := vfLen("producer-index", n-1)
	keyTag := vfU64("producer-key")
	var pa common.Address
	copy(pa[:], vfUFBytesN("addr-of-priv", 20, keyTag))
	vfAssume(pa == g.keypers[p]) // the node signs with the key of its keyper address
	k := 1 + vfLen("extra-identities", vfParam("identities", 2)-1)
	ids := vfIdentities(k)
	// P's trigger row, written when the trigger for these identities was produced
	g.trigger = &database.CurrentDecryptionTrigger{Eon: int64(g.eon), Slot: vfI64("slot"), TxPointer: vfI64("txpointer"), IdentitiesHash: vfHashOf(ids)}
	vfAssume(g.trigger.Slot >= 0 && g.trigger.TxPointer >= 0)
	// the core shares message (lemma H_C03_core_shares_accepted_by_peer)
	orig := &p2pmsg.DecryptionKeyShares{InstanceId: g.instance, Eon: g.eon, KeyperIndex: uint64(p)}
	for _, id := range ids {
		orig.Shares = append(orig.Shares, &p2pmsg.KeyShare{IdentityPreimage: id, Share: vfBytesN("share", 2)})
	}
	tr := &vfMessaging{}
	mw := gnosis.NewMessagingMiddleware(tr, nil, vfGnosisConfig(keyTag))
	err := mw.SendMessage(context.Background(), orig)
	vfAssert(err == nil && len(tr.sent) == 1, "shares-for-the-current-trigger-are-sent")
	if err != nil || len(tr.sent) != 1 {
		return
	}
	out := tr.sent[0].(*p2pmsg.DecryptionKeyShares)
	vfAssert(out.InstanceId == orig.InstanceId && out.Eon == orig.Eon && out.KeyperIndex == orig.KeyperIndex && vfDeepEq(out.Shares, orig.Shares), "middleware-keeps-the-core-fields")
	own := false
	for _, r := range g.sigs {
		own = vfIte(vfAnd(r.keyper == int64(p), r.slot == g.trigger.Slot), true, own)
	}
	vfAssert(own, "own-signature-stored-before-sending")
	// receiver: same keyper set; its own trigger row is irrelevant for validation
	g.trigger = nil
	res, verr := (&gnosis.DecryptionKeySharesHandler{}).ValidateMessage(context.Background(), out)
	vfAssert(res == pubsub.ValidationAccept && verr == nil, "gnosis-shares-accepted-by-honest-peer")
	vfReach("accepted")
}


// ---- core validator of the peer (both validators run on a keys message) ----

type vfCoreCfg struct{ addr common.Address }

func (c vfCoreCfg) GetAddress() common.Address      { return c.addr }
func (c vfCoreCfg) GetInstanceID() uint64           { return vfG3.instance }
func (c vfCoreCfg) GetMaxNumKeysPerMessage() uint64 { return vfG3.maxKeys }

//verif:stub (*github.com/shutter-network/rolling-shutter/rolling-shutter/keyper/database.Queries).GetBatchConfig sql=getBatchConfig
func vfStubBatchConfigG3(q *corekeyperdatabase.Queries, ctx context.Context, idx int32) (corekeyperdatabase.TendermintBatchConfig, error) {
	if int64(idx) != int64(vfG3.eon) {
		return corekeyperdatabase.TendermintBatchConfig{}, pgx.ErrNoRows
	}
	return corekeyperdatabase.TendermintBatchConfig{KeyperConfigIndex: idx, Keypers: shdb.EncodeAddresses(vfG3.keypers), Threshold: vfG3.threshold}, nil
}

//verif:stub (*github.com/shutter-network/rolling-shutter/rolling-shutter/keyper/database.Queries).GetDKGResultForKeyperConfigIndex sql=getDKGResultForKeyperConfigIndex
func vfStubDKGResultG3(q *corekeyperdatabase.Queries, ctx context.Context, idx int64) (corekeyperdatabase.DkgResult, error) {
	if idx != int64(vfG3.eon) {
		return corekeyperdatabase.DkgResult{}, pgx.ErrNoRows
	}
	return corekeyperdatabase.DkgResult{Eon: vfI64("dkg-eon"), Success: true, PureResult: []byte("pure")}, nil
}

//verif:stub github.com/shutter-network/rolling-shutter/rolling-shutter/shdb.DecodePureDKGResult
func vfStubDecodePureG3(b []byte) (*puredkg.Result, error) {
	return &puredkg.Result{NumKeypers: uint64(len(vfG3.keypers)), Threshold: uint64(vfG3.threshold), PublicKey: vfTagged[shcrypto.EonPublicKey](vfG3.eonPK)}, nil
}

func vfKeyCorrectG(r vfKeyRowG) bool {
	key, id := r.key[:], r.epochID[:]
	return vfAnd(vfUFBool("key-wellformed", key),
		vfAnd(vfUFBool("verify-key", vfUFU64("key-of-bytes", key), vfG3.eonPK, id),
			!vfUFBool("verify-key-errors", vfUFU64("key-of-bytes", key), vfG3.eonPK, id)))
}

// vfG3Tables: arbitrary signature and key tables under the storage invariant, projected on the
// signed data (slot, txPointer, ids): a row filed under that slot, pointer and identities hash
// carries a valid signature of its keyper over exactly that data (Keccak collision freedom).
func vfG3Tables(n int, slot, txPointer int64, ids []identitypreimage.IdentityPreimage) {
	g := &vfG3
	g.sigs, g.keys = nil, nil
	h := vfHashOf(ids)
	for i := 0; i < vfParam("sigrows", 2); i++ {
		r := vfSigRow{slot: vfI64("row.slot"), keyper: vfI64("row.keyper"), txPointer: vfI64("row.txpointer"), hash: vfAny[[32]byte]("row.hash"), sig: vfAny[[65]byte]("row.sig")}
		vfAssume(vfAnd(vfAnd(r.keyper >= 0, r.keyper < int64(n)), vfAnd(r.slot >= 0, r.txPointer >= 0)))
		for _, o := range g.sigs {
			vfAssume(!vfAnd(o.slot == r.slot, o.keyper == r.keyper))
		}
		match := vfAnd(vfAnd(r.slot == slot, r.txPointer == txPointer), bytes.Equal(r.hash[:], h))
		valid := false
		for j, kp := range g.keypers {
			valid = vfIte(r.keyper == int64(j), vfSigValid(uint64(slot), uint64(txPointer), ids, r.sig[:], kp), valid)
		}
		vfAssume(vfIte(match, valid, true))
		g.sigs = append(g.sigs, r)
	}
	for i := 0; i < vfParam("keyrows", 2); i++ {
		r := vfKeyRowG{epochID: vfAny[[52]byte]("keyrow.identity"), key: vfAny[[2]byte]("keyrow.key")}
		for _, o := range g.keys {
			vfAssume(o.epochID != r.epochID)
		}
		vfAssume(vfKeyCorrectG(r))
		g.keys = append(g.keys, r)
	}
}

func vfMemberG(name string) common.Address {
	a := vfAny[common.Address](name)
	in := false
	for _, k := range vfG3.keypers {
		in = vfIte(a == k, true, in)
	}
	vfAssume(in)
	return a
}

// vfAllAccept runs every validator a Gnosis keys message meets at an honest peer and at the
// access node.
func vfAllAccept(m p2pmsg.Message) {
	g := &vfG3
	km := m.(*p2pmsg.DecryptionKeys)
	res, err := (&gnosis.DecryptionKeysHandler{}).ValidateMessage(context.Background(), km)
	vfAssert(res == pubsub.ValidationAccept && err == nil, "keys-accepted-by-gnosis-validator-of-honest-peer")
	core := epochkghandler.NewDecryptionKeyHandler(vfCoreCfg{addr: vfMemberG("receiver")}, nil)
	saved := g.keys
	g.keys = nil // the peer may or may not know the keys already; take the harder case of none known
	res, err = core.ValidateMessage(context.Background(), km)
	g.keys = saved
	vfAssert(res == pubsub.ValidationAccept && err == nil, "keys-accepted-by-core-validator-of-honest-peer")
	st := NewStorage()
	st.AddEonKey(g.eon, vfTagged[shcrypto.EonPublicKey](g.eonPK))
	st.AddKeyperSet(g.eon, &obskeyperdatabase.KeyperSet{KeyperConfigIndex: int64(g.eon), Keypers: shdb.EncodeAddresses(g.keypers), Threshold: g.threshold})
	an := NewDecryptionKeysHandler(&Config{InstanceID: g.instance, MaxNumKeysPerMessage: g.maxKeys}, st)
	res, err = an.ValidateMessage(context.Background(), km)
	vfAssert(res == pubsub.ValidationAccept && err == nil, "keys-accepted-by-access-node")
}

func H_C03_gnosis_share_step_emits_accepted_keys() {
	n := 2 + vfLen("extra-keypers", vfParam("keypers", 3)-2)
	vfG3Setup(n)
	g := &vfG3
	k := 1 + vfLen("extra-identities", vfParam("identities", 2)-1)
	ids := vfIdentities(k)
	slot, txPointer := vfI64("slot"), vfI64("txpointer")
	// the tx pointer counts sequencer transactions decrypted so far; honest triggers stay below 2^31
	// (the keys validators reject larger pointers, the shares validator does not)
	vfAssume(vfAnd(slot >= 0, vfAnd(txPointer >= 0, txPointer <= 1<<31-1)))
	vfG3Tables(n, slot, txPointer, ids)
	// an arbitrary Gnosis shares message that passed this node's validators
	msg := &p2pmsg.DecryptionKeyShares{InstanceId: g.instance, Eon: g.eon, KeyperIndex: vfU64("msg.keyper"),
		Extra: &p2pmsg.DecryptionKeyShares_Gnosis{Gnosis: &p2pmsg.GnosisDecryptionKeySharesExtra{Slot: uint64(slot), TxPointer: uint64(txPointer), Signature: vfBytesN("msg.signature", 65)}}}
	for _, id := range ids {
		msg.Shares = append(msg.Shares, &p2pmsg.KeyShare{IdentityPreimage: id, Share: vfBytesN("share", 2)})
	}
	res, _ := (&gnosis.DecryptionKeySharesHandler{}).ValidateMessage(context.Background(), msg)
	vfAssume(res == pubsub.ValidationAccept)
	tr := &vfMessaging{}
	mw := gnosis.NewMessagingMiddleware(tr, nil, vfGnosisConfig(vfU64("own-key")))
	mw.AddMessageHandler(&gnosis.DecryptionKeySharesHandler{})
	out, err := tr.handlers[0].HandleMessage(context.Background(), msg)
	vfAssert(err == nil, "validated-gnosis-shares-handled-without-error")
	// ghost: signatures on file for exactly this data, and keys known for all identities
	h := vfHashOf(ids)
	cnt := int32(0)
	for _, r := range g.sigs {
		cnt += vfIte(vfAnd(vfAnd(r.slot == slot, r.txPointer == txPointer), bytes.Equal(r.hash[:], h)), int32(1), int32(0))
	}
	allKnown := true
	for _, id := range ids {
		known := false
		for _, kr := range g.keys {
			known = vfIte(bytes.Equal(kr.epochID[:], id), true, known)
		}
		allKnown = vfIte(known, allKnown, false)
	}
	vfAssert((len(out) == 1) == vfAnd(cnt >= g.threshold, allKnown), "gnosis-keys-emitted-iff-threshold-signatures-and-all-keys-known")
	if len(out) != 1 {
		vfReach("no-keys-yet")
		return
	}
	vfAllAccept(out[0])
	vfAssert(vfAnd(g.pointerOK, g.pointer == txPointer+int64(k)-1), "tx-pointer-advanced-past-the-decrypted-transactions")
	vfReach("keys-accepted")
}

// The core handler's keys message (no extra yet) passes through the middleware, which attaches
// the signatures on file for the current trigger; whatever leaves the node is accepted.
func H_C03_gnosis_keys_middleware_output_accepted() {
	n := 2 + vfLen("extra-keypers", vfParam("keypers", 3)-2)
	vfG3Setup(n)
	g := &vfG3
	k := 1 + vfLen("extra-identities", vfParam("identities", 2)-1)
	ids := vfIdentities(k)
	slot, txPointer := vfI64("slot"), vfI64("txpointer")
	vfAssume(vfAnd(slot >= 0, vfAnd(txPointer >= 0, txPointer <= 1<<31-1)))
	vfG3Tables(n, slot, txPointer, ids)
	g.trigger = &database.CurrentDecryptionTrigger{Eon: int64(g.eon), Slot: slot, TxPointer: txPointer, IdentitiesHash: vfHashOf(ids)}
	// keys message of the core handler for some identities (those of the trigger, or of an
	// earlier trigger whose keys were completed late); every key is correct
	k2 := 1 + vfLen("extra-key-identities", vfParam("identities", 2)-1)
	kids := vfIdentities(k2)
	same := k2 == k
	for i := 0; i < k2 && i < k; i++ {
		same = vfIte(bytes.Equal(kids[i], ids[i]), same, false)
	}
	// Keccak collision freedom for the two identity lists at hand
	vfAxiom(vfIte(same, true, !bytes.Equal(vfHashOf(kids), vfHashOf(ids))))
	orig := &p2pmsg.DecryptionKeys{InstanceId: g.instance, Eon: g.eon}
	for _, id := range kids {
		kr := vfKeyRowG{key: vfAny[[2]byte]("key")}
		copy(kr.epochID[:], id)
		vfAssume(vfKeyCorrectG(kr))
		orig.Keys = append(orig.Keys, &p2pmsg.Key{IdentityPreimage: id, Key: kr.key[:]})
	}
	tr := &vfMessaging{}
	mw := gnosis.NewMessagingMiddleware(tr, nil, vfGnosisConfig(vfU64("own-key")))
	err := mw.SendMessage(context.Background(), orig)
	vfAssert(err == nil, "middleware-does-not-fail")
	h := vfHashOf(ids)
	cnt := int32(0)
	for _, r := range g.sigs {
		cnt += vfIte(vfAnd(vfAnd(r.slot == slot, r.txPointer == txPointer), bytes.Equal(r.hash[:], h)), int32(1), int32(0))
	}
	if same {
		vfAssert((len(tr.sent) == 1) == (cnt >= g.threshold), "keys-for-current-trigger-sent-iff-threshold-signatures-on-file")
	}
	if len(tr.sent) == 0 {
		vfReach("held-back")
		return
	}
	vfAllAccept(tr.sent[0])
	vfReach("sent-and-accepted")
}

package gnosisaccessnode

import (
	"context"

	"github.com/ethereum/go-ethereum/common"
	pubsub "github.com/libp2p/go-libp2p-pubsub"

	"github.com/shutter-network/shutter/shlib/shcrypto"

	obskeyperdatabase "github.com/shutter-network/rolling-shutter/rolling-shutter/chainobserver/db/keyper"
	"github.com/shutter-network/rolling-shutter/rolling-shutter/keyperimpl/gnosis"
	"github.com/shutter-network/rolling-shutter/rolling-shutter/p2pmsg"
	"github.com/shutter-network/rolling-shutter/rolling-shutter/shdb"
)

// C05 (Gnosis access node): ValidateMessage and HandleMessage of the keys handler on an arbitrary
// decoded keys message against an arbitrary storage (eon key and keyper set present or not,
// keyper addresses malformed or not): no panic, bounded work.

//verif:stub github.com/ethereum/go-ethereum/crypto.Keccak256
func vfStubKeccakA5(data ...[]byte) []byte { return vfBytesN("keccak", 32) }

func H_C05_accessnode_keys() {
	list := vfParam("list", 2)
	st := NewStorage()
	eon := vfU64("storage.eon")
	if vfBool("storage.has-eon-key") {
		st.AddEonKey(eon, vfTagged[shcrypto.EonPublicKey](vfU64("eonpk")))
	}
	if vfBool("storage.has-keyper-set") {
		ks := &obskeyperdatabase.KeyperSet{KeyperConfigIndex: vfI64("set.index"), Threshold: vfI32("set.threshold")}
		k := vfLen("set.nkeypers", vfParam("keypers", 2))
		for i := 0; i < k; i++ {
			if vfBool("set.keyper-malformed") {
				ks.Keypers = append(ks.Keypers, vfAtom("set.badkeyper"))
			} else {
				ks.Keypers = append(ks.Keypers, shdb.EncodeAddress(vfAny[common.Address]("set.keyper")))
			}
		}
		st.AddKeyperSet(vfU64("storage.set-eon"), ks)
	}
	msg := &p2pmsg.DecryptionKeys{InstanceId: vfU64("instance"), Eon: vfU64("eon")}
	n := vfLen("nkeys", list)
	for i := 0; i < n; i++ {
		msg.Keys = append(msg.Keys, &p2pmsg.Key{IdentityPreimage: vfBytes("identity", 53), Key: vfBytes("key", 2)})
	}
	switch vfLen("extra-kind", 3) {
	case 0:
		ex := &p2pmsg.GnosisDecryptionKeysExtra{Slot: vfU64("slot"), TxPointer: vfU64("txpointer")}
		ns := vfLen("nsigners", list+1)
		for i := 0; i < ns; i++ {
			ex.SignerIndices = append(ex.SignerIndices, vfU64("signer"))
		}
		nsig := vfLen("nsignatures", list+1)
		for i := 0; i < nsig; i++ {
			ex.Signatures = append(ex.Signatures, vfBytes("signature", 2))
		}
		msg.Extra = &p2pmsg.DecryptionKeys_Gnosis{Gnosis: ex}
	case 1:
		msg.Extra = &p2pmsg.DecryptionKeys_Gnosis{}
	case 2:
		msg.Extra = &p2pmsg.DecryptionKeys_Service{Service: &p2pmsg.ShutterServiceDecryptionKeysExtra{}}
	}
	ownInstance, maxKeys := vfU64("own-instance"), vfU64("maxkeys")
	h := NewDecryptionKeysHandler(&Config{InstanceID: ownInstance, MaxNumKeysPerMessage: maxKeys}, st)
	_ = msg.Validate()
	_ = msg.LogInfo()
	res, _ := h.ValidateMessage(context.Background(), msg)
	if res != pubsub.ValidationAccept {
		vfReach("rejected")
		return
	}
	vfReach("accepted")
	// C06/C04 at the level of the access node: accepted means instance, key count, eon key and the
	// signature kernel against the keyper set stored for the message's own eon all agree
	ks, haveSet := st.GetKeyperSet(msg.Eon)
	_, haveKey := st.GetEonKey(msg.Eon)
	vfAssert(haveSet && haveKey, "eon-key-and-keyper-set-of-the-message-eon-are-known")
	vfAssert(msg.InstanceId == ownInstance && len(msg.Keys) > 0 && uint64(len(msg.Keys)) <= maxKeys, "instance-and-key-count-checked")
	if haveSet {
		ex, isGnosis := msg.Extra.(*p2pmsg.DecryptionKeys_Gnosis)
		vfAssert(isGnosis && ex.Gnosis != nil, "gnosis-extra-present")
		if isGnosis && ex.Gnosis != nil {
			basic, _ := gnosis.ValidateDecryptionKeysBasic(msg)
			ref, _ := gnosis.ValidateDecryptionKeysSignatures(msg, ex.Gnosis, ks)
			vfAssert(basic == pubsub.ValidationAccept && ref == pubsub.ValidationAccept, "accepted-keys-message-carries-a-threshold-of-genuine-signatures")
		}
	}
	out, err := h.HandleMessage(context.Background(), msg)
	vfAssert(err == nil && len(out) == 0, "access-node-emits-nothing")
}

package epochkghandler

import (
	"bytes"
	"context"

	"github.com/ethereum/go-ethereum/common"
	"github.com/jackc/pgconn"
	"github.com/jackc/pgx/v4"
	pubsub "github.com/libp2p/go-libp2p-pubsub"

	"github.com/shutter-network/shutter/shlib/puredkg"
	"github.com/shutter-network/shutter/shlib/shcrypto"

	"github.com/shutter-network/rolling-shutter/rolling-shutter/keyper/database"
	"github.com/shutter-network/rolling-shutter/rolling-shutter/medley/identitypreimage"
	"github.com/shutter-network/rolling-shutter/rolling-shutter/p2pmsg"
	"github.com/shutter-network/rolling-shutter/rolling-shutter/shdb"
)

// C03 (single-hop lemma, core flavour): a key-shares message produced by an honest keyper P is
// accepted by the validator of an honest peer R with consistent configuration (same instance, same
// keyper set rows, same DKG result). The cryptographic facts used are axioms of the scheme:
// share correctness (a share computed from P's secret share verifies against P's public key
// share for that identity) and marshal/unmarshal round trip.

type vfCfg3 struct {
	addr     common.Address
	instance uint64
	maxKeys  uint64
}

func (c vfCfg3) GetAddress() common.Address      { return c.addr }
func (c vfCfg3) GetInstanceID() uint64           { return c.instance }
func (c vfCfg3) GetMaxNumKeysPerMessage() uint64 { return c.maxKeys }

var vfC03 struct {
	keypers  []common.Address
	pkTags   []uint64
	skTag    uint64
	eonPK    uint64
	threshold uint64
	cfgIndex int64
	eon      int64
	producer bool // which node's database is being asked
	pIndex   int
	pResult  *puredkg.Result
	stored   int
}

func vfResultFor(keyper int) *puredkg.Result {
	r := &puredkg.Result{Eon: uint64(vfC03.eon), NumKeypers: uint64(len(vfC03.keypers)), Threshold: vfC03.threshold, Keyper: uint64(keyper)}
	r.PublicKey = vfTagged[shcrypto.EonPublicKey](vfC03.eonPK)
	r.SecretKeyShare = new(shcrypto.EonSecretKeyShare)
	for _, t := range vfC03.pkTags {
		r.PublicKeyShares = append(r.PublicKeyShares, vfTagged[shcrypto.EonPublicKeyShare](t))
	}
	return r
}

//verif:stub (*github.com/shutter-network/rolling-shutter/rolling-shutter/keyper/database.Queries).GetBatchConfig sql=getBatchConfig
func vfStubGetBatchConfig3(q *database.Queries, ctx context.Context, idx int32) (database.TendermintBatchConfig, error) {
	if int64(idx) != vfC03.cfgIndex {
		return database.TendermintBatchConfig{}, pgx.ErrNoRows
	}
	return database.TendermintBatchConfig{KeyperConfigIndex: idx, Keypers: shdb.EncodeAddresses(vfC03.keypers), Threshold: int32(vfC03.threshold)}, nil
}

//verif:stub (*github.com/shutter-network/rolling-shutter/rolling-shutter/keyper/database.Queries).ExistsDecryptionKeyShare sql=existsDecryptionKeyShare
func vfStubExistsShare(q *database.Queries, ctx context.Context, arg database.ExistsDecryptionKeyShareParams) (bool, error) {
	if vfC03Neg.on {
		return vfUFBool("own-share-exists", arg.EpochID), nil
	}
	return false, nil // P has not produced these shares yet
}

// switches for the negative harness (H_C02_shares_only_for_member_with_successful_dkg)
var vfC03Neg struct {
	on         bool
	dkgMissing bool
	dkgFailed  bool
}

//verif:stub (*github.com/shutter-network/rolling-shutter/rolling-shutter/keyper/database.Queries).GetDKGResult sql=getDKGResult
func vfStubGetDKGResult3(q *database.Queries, ctx context.Context, eon int64) (database.DkgResult, error) {
	if eon != vfC03.eon || (vfC03Neg.on && vfC03Neg.dkgMissing) {
		return database.DkgResult{}, pgx.ErrNoRows
	}
	if vfC03Neg.on && vfC03Neg.dkgFailed {
		return database.DkgResult{Eon: eon, Success: false}, nil
	}
	return database.DkgResult{Eon: eon, Success: true, PureResult: []byte("pure")}, nil
}

//verif:stub (*github.com/shutter-network/rolling-shutter/rolling-shutter/keyper/database.Queries).GetDKGResultForKeyperConfigIndex sql=getDKGResultForKeyperConfigIndex
func vfStubGetDKGResultByCfg3(q *database.Queries, ctx context.Context, idx int64) (database.DkgResult, error) {
	if idx != vfC03.cfgIndex {
		return database.DkgResult{}, pgx.ErrNoRows
	}
	return database.DkgResult{Eon: vfC03.eon, Success: true, PureResult: []byte("pure")}, nil
}

//verif:stub github.com/shutter-network/rolling-shutter/rolling-shutter/shdb.DecodePureDKGResult
func vfStubDecodePure3(b []byte) (*puredkg.Result, error) {
	if vfC03.producer {
		return vfC03.pResult, nil
	}
	return vfResultFor(0), nil // R's own copy of the same public result
}

//verif:stub (*github.com/shutter-network/rolling-shutter/rolling-shutter/keyper/database.Queries).InsertDecryptionKeyShare sql=insertDecryptionKeyShare
func vfStubInsertShare3(q *database.Queries, ctx context.Context, arg database.InsertDecryptionKeyShareParams) error {
	vfC03.stored++
	if vfC03StepMode {
		vfInsertShareRow(arg)
	}
	return nil
}

//verif:stub github.com/shutter-network/shutter/shlib/shcrypto.ComputeEpochSecretKeyShare
func vfStubComputeShare(sk *shcrypto.EonSecretKeyShare, id *shcrypto.EpochID) *shcrypto.EpochSecretKeyShare {
	vfAssert(sk == vfC03.pResult.SecretKeyShare, "producer-uses-its-own-secret-key-share")
	return vfTagged[shcrypto.EpochSecretKeyShare](vfUFU64("compute-share", vfC03.skTag, vfTagOf(id)))
}

//verif:stub (*github.com/shutter-network/shutter/shlib/shcrypto.EpochSecretKeyShare).Marshal
func vfStubShareMarshal(s *shcrypto.EpochSecretKeyShare) []byte {
	return vfUFBytesN("share-bytes", 2, vfTagOf(s))
}

func H_C03_core_shares_accepted_by_peer() {
	n := 2 + vfLen("extra-keypers", vfParam("keypers", 3)-2)
	c := &vfC03
	c.keypers, c.pkTags = nil, nil
	for i := 0; i < n; i++ {
		a := vfAny[common.Address]("keyper")
		for _, o := range c.keypers {
			vfAssume(a != o)
		}
		c.keypers = append(c.keypers, a)
		c.pkTags = append(c.pkTags, vfU64("pkshare"))
	}
	c.skTag, c.eonPK, c.threshold = vfU64("sk"), vfU64("eonpk"), vfU64("threshold")
	vfAssume(c.threshold >= 1 && c.threshold <= uint64(n))
	c.cfgIndex, c.eon = vfI64("keyper-config-index"), vfI64("eon")
	vfAssume(c.cfgIndex >= 0 && c.cfgIndex < 1<<31 && c.eon >= 0)
	c.pIndex = vfLen("producer-index", n-1)
	r := vfLen("receiver-index", n-1)
	c.pResult = vfResultFor(c.pIndex)
	c.stored = 0
	instance, maxKeys := vfU64("instance"), vfU64("maxkeys")
	vfAssume(maxKeys >= 1 && maxKeys <= 4)
	// identities of a trigger are sorted (C02, C19)
	k := 1 + vfLen("extra-identities", vfParam("identities", 2)-1)
	var ids []identitypreimage.IdentityPreimage
	for i := 0; i < k; i++ {
		id := identitypreimage.IdentityPreimage(vfBytes("identity", 2))
		if i > 0 {
			vfAssume(bytes.Compare(ids[i-1], id) <= 0)
		}
		ids = append(ids, id)
	}
	// producer
	c.producer = true
	ksh := &KeyShareHandler{InstanceID: instance, KeyperAddress: c.keypers[c.pIndex], MaxNumKeysPerMessage: maxKeys}
	msg, err := ksh.ConstructDecryptionKeyShares(context.Background(), database.Eon{Eon: c.eon, KeyperConfigIndex: c.cfgIndex}, ids)
	if uint64(k) > maxKeys {
		vfAssert(err != nil, "oversized-trigger-not-sent")
		vfReach("oversized")
		return
	}
	vfAssert(err == nil && msg != nil, "honest-producer-produces-a-message")
	if err != nil {
		return
	}
	vfAssert(c.stored == k, "own-shares-stored-before-sending")
	// axioms of the scheme for the shares P computed
	for _, s := range msg.Shares {
		tag := vfUFU64("compute-share", c.skTag, vfUFU64("epoch-id", s.IdentityPreimage))
		vfAxiom(vfUFBool("share-wellformed", vfUFBytesN("share-bytes", 2, tag)))
		vfAxiom(vfUFU64("share-of-bytes", vfUFBytesN("share-bytes", 2, tag)) == tag)
		vfAxiom(vfUFBool("verify-share", tag, c.pkTags[c.pIndex], vfUFU64("epoch-id", s.IdentityPreimage)))
	}
	// receiver
	c.producer = false
	h := &DecryptionKeyShareHandler{config: vfCfg3{addr: c.keypers[r], instance: instance, maxKeys: maxKeys}}
	res, verr := h.ValidateMessage(context.Background(), msg)
	vfAssert(res == pubsub.ValidationAccept && verr == nil, "honest-message-accepted-by-honest-peer")
	vfReach("accepted")
}

// ---- lemma 2/3: one handler step of node A from an arbitrary state of its tables ----

const vfIDLen = 2 // identities of the handler-step lemmas are 2 bytes

type vfShareRow struct {
	epochID [vfIDLen]byte
	keyper  int64
	share   [2]byte
}

type vfKeyRow struct {
	epochID [vfIDLen]byte
	key     [2]byte
}

var vfC03T struct {
	shares   []vfShareRow // decryption_key_share rows of the eon
	keys     []vfKeyRow   // decryption_key rows of the eon
	msgIDs   [][]byte
	combines int
}

func vfAnd(a, b bool) bool { return vfIte(a, b, false) } // no short-circuit, no fork

//verif:stub (*github.com/shutter-network/rolling-shutter/rolling-shutter/keyper/database.Queries).ExistsDecryptionKey sql=existsDecryptionKey
func vfStubExistsKey3(q *database.Queries, ctx context.Context, arg database.ExistsDecryptionKeyParams) (bool, error) {
	found := false
	for _, r := range vfC03T.keys {
		found = vfIte(vfAnd(arg.Eon == vfC03.cfgIndex, bytes.Equal(r.epochID[:], arg.EpochID)), true, found)
	}
	return found, nil
}

//verif:stub (*github.com/shutter-network/rolling-shutter/rolling-shutter/keyper/database.Queries).GetDecryptionKey sql=getDecryptionKey
func vfStubGetKey3(q *database.Queries, ctx context.Context, arg database.GetDecryptionKeyParams) (database.DecryptionKey, error) {
	found := false
	var key [2]byte
	for _, r := range vfC03T.keys {
		m := vfAnd(arg.Eon == vfC03.cfgIndex, bytes.Equal(r.epochID[:], arg.EpochID))
		found = vfIte(m, true, found)
		key = vfIte(m, r.key, key)
	}
	if !found {
		return database.DecryptionKey{}, pgx.ErrNoRows
	}
	kk := key
	return database.DecryptionKey{Eon: arg.Eon, EpochID: arg.EpochID, DecryptionKey: kk[:]}, nil
}

//verif:stub (*github.com/shutter-network/rolling-shutter/rolling-shutter/keyper/database.Queries).SelectDecryptionKeyShares sql=selectDecryptionKeyShares
func vfStubSelectShares3(q *database.Queries, ctx context.Context, arg database.SelectDecryptionKeySharesParams) ([]database.DecryptionKeyShare, error) {
	var out []database.DecryptionKeyShare
	for _, r := range vfC03T.shares {
		if vfAnd(arg.Eon == vfC03.cfgIndex, bytes.Equal(r.epochID[:], arg.EpochID)) {
			row := r
			out = append(out, database.DecryptionKeyShare{Eon: arg.Eon, EpochID: row.epochID[:], KeyperIndex: row.keyper, DecryptionKeyShare: row.share[:]})
		}
	}
	return out, nil
}

// the handler-step harness replaces the insert stub's behaviour through this switch
var vfC03StepMode bool

func vfInsertShareRow(arg database.InsertDecryptionKeyShareParams) {
	if arg.Eon != vfC03.cfgIndex {
		return
	}
	conflict := false // ON CONFLICT DO NOTHING
	for _, r := range vfC03T.shares {
		conflict = vfIte(vfAnd(bytes.Equal(r.epochID[:], arg.EpochID), r.keyper == arg.KeyperIndex), true, conflict)
	}
	if conflict {
		return
	}
	row := vfShareRow{keyper: arg.KeyperIndex}
	vfAssert(len(arg.EpochID) == vfIDLen && len(arg.DecryptionKeyShare) == 2, "harness-row-sizes")
	copy(row.epochID[:], arg.EpochID)
	copy(row.share[:], arg.DecryptionKeyShare)
	if vfBool("new-row-scanned-first") {
		vfC03T.shares = append([]vfShareRow{row}, vfC03T.shares...)
	} else {
		vfC03T.shares = append(vfC03T.shares, row)
	}
}

//verif:stub (*github.com/shutter-network/rolling-shutter/rolling-shutter/keyper/database.Queries).InsertDecryptionKey sql=insertDecryptionKey
func vfStubInsertKey3(q *database.Queries, ctx context.Context, arg database.InsertDecryptionKeyParams) (pgconn.CommandTag, error) {
	if arg.Eon != vfC03.cfgIndex {
		return pgconn.CommandTag("INSERT 0 1"), nil
	}
	conflict := false
	for _, r := range vfC03T.keys {
		conflict = vfIte(bytes.Equal(r.epochID[:], arg.EpochID), true, conflict)
	}
	if conflict {
		return pgconn.CommandTag("INSERT 0 0"), nil
	}
	var row vfKeyRow
	vfAssert(len(arg.EpochID) == vfIDLen && len(arg.DecryptionKey) == 2, "harness-row-sizes")
	copy(row.epochID[:], arg.EpochID)
	copy(row.key[:], arg.DecryptionKey)
	vfC03T.keys = append(vfC03T.keys, row)
	return pgconn.CommandTag("INSERT 0 1"), nil
}

//verif:stub (github.com/jackc/pgconn.CommandTag).RowsAffected
func vfStubRowsAffected(t pgconn.CommandTag) int64 {
	if len(t) > 0 && t[len(t)-1] == '0' {
		return 0
	}
	return 1
}

//verif:stub github.com/shutter-network/shutter/shlib/shcrypto.ComputeEpochSecretKey
func vfStubCombine3(indices []int, shares []*shcrypto.EpochSecretKeyShare, threshold uint64) (*shcrypto.EpochSecretKey, error) {
	vfC03T.combines++
	acc := uint64(0)
	shape := vfAnd(len(indices) == len(shares), vfAnd(uint64(len(indices)) == threshold, threshold == vfC03.threshold))
	if !shape {
		// outside the Lagrange axiom: arbitrary result
		if vfBool("combine-fails") {
			return nil, vfErr("combine")
		}
		return vfTagged[shcrypto.EpochSecretKey](vfU64("garbage-key")), nil
	}
	distinct := true
	for i := range indices {
		for j := 0; j < i; j++ {
			distinct = vfIte(indices[i] == indices[j], false, distinct)
		}
		distinct = vfIte(vfAnd(indices[i] >= 0, indices[i] < len(vfC03.pkTags)), distinct, false)
	}
	for i := range indices {
		acc = vfUFU64("lagrange-step", acc, uint64(indices[i]), vfTagOf(shares[i]))
	}
	// Lagrange axiom: t shares of distinct keypers, all verified for one identity, interpolate to
	// the key that verifies against the eon public key for that identity.
	for _, id := range vfC03T.msgIDs {
		all := distinct
		for i := range indices {
			pk := uint64(0)
			for j, t := range vfC03.pkTags {
				pk = vfIte(indices[i] == j, t, pk)
			}
			all = vfIte(vfUFBool("verify-share", vfTagOf(shares[i]), pk, vfUFU64("epoch-id", id)), all, false)
		}
		vfAxiom(vfIte(all, vfAnd(vfUFBool("verify-key", acc, vfC03.eonPK, id), !vfUFBool("verify-key-errors", acc, vfC03.eonPK, id)), true))
	}
	vfAxiom(vfUFBool("key-wellformed", vfUFBytesN("key-bytes", 2, acc)))
	vfAxiom(vfUFU64("key-of-bytes", vfUFBytesN("key-bytes", 2, acc)) == acc)
	return vfTagged[shcrypto.EpochSecretKey](acc), nil
}

//verif:stub (*github.com/shutter-network/shutter/shlib/shcrypto.EpochSecretKey).Marshal
func vfStubKeyMarshal(k *shcrypto.EpochSecretKey) []byte {
	return vfUFBytesN("key-bytes", 2, vfTagOf(k))
}

// vfMember returns an arbitrary member of the keyper set (no fork per index).
func vfMember(name string) common.Address {
	a := vfAny[common.Address](name)
	in := false
	for _, k := range vfC03.keypers {
		in = vfIte(a == k, true, in)
	}
	vfAssume(in)
	return a
}

func vfHasKey(id []byte) bool {
	known := false
	for _, kr := range vfC03T.keys {
		known = vfIte(bytes.Equal(kr.epochID[:], id), true, known)
	}
	return known
}

func vfKeyRowCorrect(r vfKeyRow) bool {
	key, id := r.key[:], r.epochID[:]
	return vfAnd(vfUFBool("key-wellformed", key),
		vfAnd(vfUFBool("verify-key", vfUFU64("key-of-bytes", key), vfC03.eonPK, id),
			!vfUFBool("verify-key-errors", vfUFU64("key-of-bytes", key), vfC03.eonPK, id)))
}

func vfC03Setup(n int) (instance, maxKeys uint64) {
	c := &vfC03
	c.keypers, c.pkTags = nil, nil
	for i := 0; i < n; i++ {
		a := vfAny[common.Address]("keyper")
		for _, o := range c.keypers {
			vfAssume(a != o)
		}
		c.keypers = append(c.keypers, a)
		c.pkTags = append(c.pkTags, vfU64("pkshare"))
	}
	c.skTag, c.eonPK, c.threshold = vfU64("sk"), vfU64("eonpk"), vfU64("threshold")
	vfAssume(c.threshold >= 1 && c.threshold <= uint64(n))
	c.cfgIndex, c.eon = vfI64("keyper-config-index"), vfI64("eon")
	vfAssume(c.cfgIndex >= 0 && c.cfgIndex < 1<<31 && c.eon >= 0)
	c.producer = false
	instance, maxKeys = vfU64("instance"), vfU64("maxkeys")
	vfAssume(maxKeys >= 1 && maxKeys <= 4)
	return
}

// vfC03Tables makes arbitrary share and key tables of node A satisfying the storage invariant:
// only validated material is stored (shares verify against the public key share of their keyper,
// keys verify against the eon public key), one row per primary key.
func vfC03Tables(n int) {
	t := &vfC03T
	t.shares, t.keys, t.combines = nil, nil, 0
	m := vfParam("sharerows", 3)
	for i := 0; i < m; i++ {
		r := vfShareRow{epochID: vfAny[[vfIDLen]byte]("row.identity"), keyper: vfI64("row.keyper"), share: vfAny[[2]byte]("row.share")}
		vfAssume(vfAnd(r.keyper >= 0, r.keyper < int64(n)))
		for _, o := range t.shares {
			vfAssume(!vfAnd(o.epochID == r.epochID, o.keyper == r.keyper))
		}
		pk := uint64(0)
		for j, tg := range vfC03.pkTags {
			pk = vfIte(r.keyper == int64(j), tg, pk)
		}
		vfAssume(vfUFBool("share-wellformed", r.share[:]))
		vfAssume(vfUFBool("verify-share", vfUFU64("share-of-bytes", r.share[:]), pk, vfUFU64("epoch-id", r.epochID[:])))
		t.shares = append(t.shares, r)
	}
	kk := vfParam("keyrows", 2)
	for i := 0; i < kk; i++ {
		r := vfKeyRow{epochID: vfAny[[vfIDLen]byte]("keyrow.identity"), key: vfAny[[2]byte]("keyrow.key")}
		for _, o := range t.keys {
			vfAssume(o.epochID != r.epochID)
		}
		vfAssume(vfKeyRowCorrect(r))
		t.keys = append(t.keys, r)
	}
}

func H_C03_core_share_step_emits_accepted_keys() {
	n := 2 + vfLen("extra-keypers", vfParam("keypers", 3)-2)
	instance, maxKeys := vfC03Setup(n)
	c := &vfC03
	vfC03Tables(n)
	vfC03StepMode = true
	addrA, addrR := vfMember("handler"), vfMember("receiver")
	// an arbitrary shares message that passed A's validator
	k := 1 + vfLen("extra-identities", vfParam("identities", 2)-1)
	msg := &p2pmsg.DecryptionKeyShares{InstanceId: vfU64("msg.instance"), Eon: vfU64("msg.eon"), KeyperIndex: vfU64("msg.keyper")}
	vfC03T.msgIDs = nil
	for i := 0; i < k; i++ {
		id := vfBytesN("identity", vfIDLen)
		msg.Shares = append(msg.Shares, &p2pmsg.KeyShare{IdentityPreimage: id, Share: vfBytesN("share", 2)})
		vfC03T.msgIDs = append(vfC03T.msgIDs, id)
	}
	hs := &DecryptionKeyShareHandler{config: vfCfg3{addr: addrA, instance: instance, maxKeys: maxKeys}}
	res, _ := hs.ValidateMessage(context.Background(), msg)
	vfAssume(res == pubsub.ValidationAccept)
	// ghost: will every identity of the message have t stored shares after the insert?
	before := len(vfC03T.keys)
	allKnown := true
	for _, id := range vfC03T.msgIDs {
		allKnown = vfIte(vfHasKey(id), allKnown, false)
	}
	out, err := hs.HandleMessage(context.Background(), msg)
	vfAssert(err == nil, "validated-share-message-handled-without-error")
	enough := true
	for _, id := range vfC03T.msgIDs {
		cnt := uint64(0)
		for _, row := range vfC03T.shares {
			cnt += vfIte(bytes.Equal(row.epochID[:], id), uint64(1), uint64(0))
		}
		enough = vfIte(cnt < c.threshold, false, enough)
	}
	// every share of the message is now stored
	for _, s := range msg.Shares {
		found := false
		for _, row := range vfC03T.shares {
			found = vfIte(vfAnd(bytes.Equal(row.epochID[:], s.IdentityPreimage), row.keyper == int64(msg.KeyperIndex)), true, found)
		}
		vfAssert(found, "received-shares-stored")
	}
	vfAssert((len(out) == 1) == vfAnd(enough, !allKnown), "keys-emitted-iff-threshold-reached-for-all-identities-and-some-key-unknown")
	for _, kr := range vfC03T.keys {
		vfAssert(vfKeyRowCorrect(kr), "stored-keys-correct")
	}
	if len(out) != 1 {
		vfAssert(len(vfC03T.keys) == before, "no-key-stored-without-emission")
		vfReach("no-keys-yet")
		return
	}
	for _, id := range vfC03T.msgIDs {
		vfAssert(vfHasKey(id), "key-stored-for-every-identity-of-the-message")
	}
	// the emitted keys message is accepted by an honest peer (whatever keys that peer already has)
	hk := &DecryptionKeyHandler{config: vfCfg3{addr: addrR, instance: instance, maxKeys: maxKeys}}
	vfC03T.keys = nil
	for i := 0; i < vfParam("peerkeyrows", 1); i++ {
		vfC03T.keys = append(vfC03T.keys, vfKeyRow{epochID: vfAny[[vfIDLen]byte]("peer.identity"), key: vfAny[[2]byte]("peer.key")})
	}
	kres, kerr := hk.ValidateMessage(context.Background(), out[0])
	vfAssert(kres == pubsub.ValidationAccept && kerr == nil, "emitted-keys-accepted-by-honest-peer")
	vfReach("keys-accepted")
}

func H_C03_core_keys_step_stores_correct_keys() {
	n := 2 + vfLen("extra-keypers", vfParam("keypers", 3)-2)
	instance, maxKeys := vfC03Setup(n)
	vfC03Tables(n)
	addrA := vfMember("handler")
	k := 1 + vfLen("extra-identities", vfParam("identities", 2)-1)
	msg := &p2pmsg.DecryptionKeys{InstanceId: vfU64("msg.instance"), Eon: vfU64("msg.eon")}
	for i := 0; i < k; i++ {
		msg.Keys = append(msg.Keys, &p2pmsg.Key{IdentityPreimage: vfBytesN("identity", vfIDLen), Key: vfBytesN("key", 2)})
	}
	hk := &DecryptionKeyHandler{config: vfCfg3{addr: addrA, instance: instance, maxKeys: maxKeys}}
	res, _ := hk.ValidateMessage(context.Background(), msg)
	vfAssume(res == pubsub.ValidationAccept)
	out, err := hk.HandleMessage(context.Background(), msg)
	vfAssert(err == nil && len(out) == 0, "validated-keys-message-handled")
	for _, kr := range vfC03T.keys {
		vfAssert(vfKeyRowCorrect(kr), "stored-keys-correct")
	}
	for _, key := range msg.Keys {
		vfAssert(vfHasKey(key.IdentityPreimage), "key-stored-for-every-identity-of-the-message")
	}
	vfReach("stored")
}


// C02 (last clause, producer side): key shares are produced only for a keyper set the keyper
// belongs to, whose key generation succeeded, for a non-empty trigger within the size limit, and
// not again once all of them have been produced; the message carries the keyper's own index and
// the keyper set index.
func H_C02_shares_only_for_member_with_successful_dkg() {
	n := 2 + vfLen("extra-keypers", vfParam("keypers", 3)-2)
	instance, maxKeys := vfC03Setup(n)
	c := &vfC03
	vfC03Neg.on, vfC03Neg.dkgMissing, vfC03Neg.dkgFailed = true, vfBool("dkg-result-missing"), vfBool("dkg-failed")
	vfC03StepMode = false
	own := vfAny[common.Address]("own-address") // member or not
	ownIndex, member := -1, false
	for i, k := range c.keypers {
		if k == own {
			ownIndex, member = i, true
		}
	}
	c.producer, c.pIndex = true, 0
	if member {
		c.pIndex = ownIndex
	}
	c.pResult = vfResultFor(c.pIndex)
	c.stored = 0
	k := vfLen("identities", vfParam("identities", 2))
	var ids []identitypreimage.IdentityPreimage
	allExist := k > 0
	for i := 0; i < k; i++ {
		id := identitypreimage.IdentityPreimage(vfBytesN("identity", 2))
		ids = append(ids, id)
		if !vfUFBool("own-share-exists", []byte(id)) {
			allExist = false
		}
	}
	ksh := &KeyShareHandler{InstanceID: instance, KeyperAddress: own, MaxNumKeysPerMessage: maxKeys}
	msg, err := ksh.ConstructDecryptionKeyShares(context.Background(), database.Eon{Eon: c.eon, KeyperConfigIndex: c.cfgIndex}, ids)
	if msg != nil {
		vfAssert(err == nil, "message-without-error")
		vfAssert(member, "shares-only-from-a-member-of-the-keyper-set")
		vfAssert(!vfC03Neg.dkgMissing && !vfC03Neg.dkgFailed, "shares-only-after-a-successful-key-generation")
		vfAssert(k >= 1 && uint64(k) <= maxKeys, "shares-only-for-a-non-empty-trigger-within-the-size-limit")
		vfAssert(!allExist, "shares-not-produced-twice")
		vfAssert(msg.KeyperIndex == uint64(ownIndex) && int64(msg.Eon) == c.cfgIndex && msg.InstanceId == instance, "message-carries-own-index-and-keyper-set-index")
		vfAssert(len(msg.Shares) == k && c.stored == k, "one-share-per-identity-stored-before-sending")
		vfReach("shares-produced")
	} else {
		vfAssert(err != nil && c.stored == 0, "refusal-is-an-error-and-stores-nothing")
		vfReach("refused")
	}
	vfC03Neg.on = false
}

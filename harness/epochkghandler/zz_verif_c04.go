package epochkghandler

import (
	"bytes"
	"context"

	"github.com/ethereum/go-ethereum/common"
	"github.com/jackc/pgx/v4"
	pubsub "github.com/libp2p/go-libp2p-pubsub"

	"github.com/shutter-network/shutter/shlib/puredkg"
	"github.com/shutter-network/shutter/shlib/shcrypto"

	"github.com/shutter-network/rolling-shutter/rolling-shutter/keyper/database"
	"github.com/shutter-network/rolling-shutter/rolling-shutter/p2pmsg"
	"github.com/shutter-network/rolling-shutter/rolling-shutter/shdb"
)

// ---- receiver configuration and database answers (ghost state read by the stubs) ----

type vfCfg struct {
	addr     common.Address
	instance uint64
	maxKeys  uint64
}

func (c vfCfg) GetAddress() common.Address     { return c.addr }
func (c vfCfg) GetInstanceID() uint64          { return c.instance }
func (c vfCfg) GetMaxNumKeysPerMessage() uint64 { return c.maxKeys }

var (
	vfDB struct {
		configErr    bool // GetBatchConfig fails (no such config / db error)
		member       bool // receiver is in the config's keyper list
		dkgNoRow     bool
		dkgErr       bool
		dkgSuccess   bool
		decodeErr    bool
		result       *puredkg.Result
		writes       int // number of write queries reached
		keyRowExists []bool
		keyRowErr    []bool
		keyRowBytes  [][]byte
		keyQueries   int
	}
	vfSelf common.Address
)

//verif:stub (*github.com/shutter-network/rolling-shutter/rolling-shutter/keyper/database.Queries).GetBatchConfig sql=getBatchConfig
func vfStubGetBatchConfig(q *database.Queries, ctx context.Context, idx int32) (database.TendermintBatchConfig, error) {
	if vfDB.configErr {
		return database.TendermintBatchConfig{}, pgx.ErrNoRows
	}
	other := vfAny[common.Address]("cfg.other")
	vfAssume(other != vfSelf)
	ks := []string{shdb.EncodeAddress(other)}
	if vfDB.member {
		ks = append(ks, shdb.EncodeAddress(vfSelf))
	}
	return database.TendermintBatchConfig{KeyperConfigIndex: idx, Keypers: ks, Threshold: 1}, nil
}

//verif:stub (*github.com/shutter-network/rolling-shutter/rolling-shutter/keyper/database.Queries).GetDKGResultForKeyperConfigIndex sql=getDKGResultForKeyperConfigIndex
func vfStubGetDKGResult(q *database.Queries, ctx context.Context, idx int64) (database.DkgResult, error) {
	if vfDB.dkgNoRow {
		return database.DkgResult{}, pgx.ErrNoRows
	}
	if vfDB.dkgErr {
		return database.DkgResult{}, vfErr("db")
	}
	return database.DkgResult{Eon: idx, Success: vfDB.dkgSuccess, PureResult: []byte("pure")}, nil
}

//verif:stub github.com/shutter-network/rolling-shutter/rolling-shutter/shdb.DecodePureDKGResult
func vfStubDecodePure(b []byte) (*puredkg.Result, error) {
	if vfDB.decodeErr {
		return nil, vfErr("gob")
	}
	return vfDB.result, nil
}

//verif:stub (*github.com/shutter-network/rolling-shutter/rolling-shutter/keyper/database.Queries).GetDecryptionKey sql=getDecryptionKey
func vfStubGetDecryptionKey(q *database.Queries, ctx context.Context, arg database.GetDecryptionKeyParams) (database.DecryptionKey, error) {
	i := vfDB.keyQueries
	vfDB.keyQueries++
	if i >= len(vfDB.keyRowExists) {
		return database.DecryptionKey{}, pgx.ErrNoRows
	}
	if vfDB.keyRowErr[i] {
		return database.DecryptionKey{}, vfErr("db")
	}
	if !vfDB.keyRowExists[i] {
		return database.DecryptionKey{}, pgx.ErrNoRows
	}
	return database.DecryptionKey{Eon: arg.Eon, EpochID: arg.EpochID, DecryptionKey: vfDB.keyRowBytes[i]}, nil
}

func vfResult(n int) *puredkg.Result {
	r := &puredkg.Result{Eon: vfU64("res.eon"), NumKeypers: uint64(n), Threshold: vfU64("res.threshold"), Keyper: vfU64("res.keyper")}
	r.PublicKey = vfTagged[shcrypto.EonPublicKey](vfU64("res.eonpk"))
	for i := 0; i < n; i++ {
		r.PublicKeyShares = append(r.PublicKeyShares, vfTagged[shcrypto.EonPublicKeyShare](vfU64("res.pkshare")))
	}
	return r
}

func vfReceiver(nKeypers int) vfCfg {
	vfSelf = vfAny[common.Address]("self")
	vfDB.configErr = vfBool("db.config-missing")
	vfDB.member = vfBool("db.member")
	vfDB.dkgNoRow = vfBool("db.dkg-norow")
	vfDB.dkgErr = vfBool("db.dkg-err")
	vfDB.dkgSuccess = vfBool("db.dkg-success")
	vfDB.decodeErr = vfBool("db.decode-err")
	vfDB.result = vfResult(nKeypers)
	vfDB.writes = 0
	vfDB.keyQueries = 0
	return vfCfg{addr: vfSelf, instance: vfU64("cfg.instance"), maxKeys: vfU64("cfg.maxkeys")}
}

// ---- C04 (shares): ValidateMessage accepts exactly the valid key-share messages ----

func H_C04_shares() {
	n := vfParam("keypers", 3)
	cfg := vfReceiver(n)
	vfAssume(cfg.maxKeys >= 1 && cfg.maxKeys <= uint64(vfParam("maxkeys", 2)))
	k := vfLen("msg.nshares", vfParam("shares", 3))
	msg := &p2pmsg.DecryptionKeyShares{InstanceId: vfU64("msg.instance"), Eon: vfU64("msg.eon"), KeyperIndex: vfU64("msg.keyperindex")}
	for i := 0; i < k; i++ {
		msg.Shares = append(msg.Shares, &p2pmsg.KeyShare{IdentityPreimage: vfBytes("msg.identity", 2), Share: vfBytes("msg.share", 2)})
	}
	h := &DecryptionKeyShareHandler{config: cfg}
	res, _ := h.ValidateMessage(context.Background(), msg)

	// reference predicate (property statement)
	ref := msg.InstanceId == cfg.instance && msg.Eon <= 1<<63-1 &&
		!vfDB.configErr && vfDB.member && !vfDB.dkgNoRow && !vfDB.dkgErr && vfDB.dkgSuccess && !vfDB.decodeErr &&
		uint64(k) >= 1 && uint64(k) <= cfg.maxKeys && msg.KeyperIndex < uint64(n)
	if ref {
		pk := vfDB.result.PublicKeyShares[msg.KeyperIndex]
		for i, s := range msg.Shares {
			if !vfUFBool("share-wellformed", s.Share) {
				ref = false
				break
			}
			if !vfUFBool("verify-share", vfUFU64("share-of-bytes", s.Share), vfTagOf(pk), vfUFU64("epoch-id", s.IdentityPreimage)) {
				ref = false
				break
			}
			if i > 0 && bytes.Compare(msg.Shares[i-1].IdentityPreimage, s.IdentityPreimage) > 0 {
				ref = false
				break
			}
		}
	}
	vfAssert(res == pubsub.ValidationAccept || res == pubsub.ValidationReject, "verdict-is-accept-or-reject")
	vfAssert((res == pubsub.ValidationAccept) == ref, "accept-iff-valid")
	vfAssert(vfDB.writes == 0, "validator-has-no-side-effects")
	if res == pubsub.ValidationAccept {
		vfReach("accept")
	} else {
		vfReach("reject")
	}
}

// ---- C04 (keys) ----

func H_C04_keys() {
	n := vfParam("keypers", 2)
	cfg := vfReceiver(n)
	vfAssume(cfg.maxKeys >= 1 && cfg.maxKeys <= uint64(vfParam("maxkeys", 2)))
	k := vfLen("msg.nkeys", vfParam("keys", 3))
	msg := &p2pmsg.DecryptionKeys{InstanceId: vfU64("msg.instance"), Eon: vfU64("msg.eon")}
	vfDB.keyRowExists, vfDB.keyRowErr, vfDB.keyRowBytes = nil, nil, nil
	for i := 0; i < k; i++ {
		msg.Keys = append(msg.Keys, &p2pmsg.Key{IdentityPreimage: vfBytes("msg.identity", 2), Key: vfBytes("msg.key", 2)})
		vfDB.keyRowExists = append(vfDB.keyRowExists, vfBool("db.key-stored"))
		vfDB.keyRowErr = append(vfDB.keyRowErr, vfBool("db.key-err"))
		vfDB.keyRowBytes = append(vfDB.keyRowBytes, vfBytes("db.key-bytes", 2))
	}
	h := &DecryptionKeyHandler{config: cfg}
	res, _ := h.ValidateMessage(context.Background(), msg)

	ref := msg.InstanceId == cfg.instance && msg.Eon <= 1<<63-1 &&
		!vfDB.configErr && vfDB.member && !vfDB.dkgNoRow && !vfDB.dkgErr && vfDB.dkgSuccess && !vfDB.decodeErr &&
		uint64(k) >= 1 && uint64(k) <= cfg.maxKeys
	if ref {
		for i, key := range msg.Keys {
			if !vfUFBool("key-wellformed", key.Key) {
				ref = false
				break
			}
			if i > 0 && bytes.Compare(msg.Keys[i-1].IdentityPreimage, key.IdentityPreimage) > 0 {
				ref = false
				break
			}
			if vfDB.keyRowErr[i] {
				ref = false // a database failure rejects
				break
			}
			if vfDB.keyRowExists[i] && bytes.Equal(key.Key, vfDB.keyRowBytes[i]) {
				continue // equals the key already stored
			}
			kt := vfUFU64("key-of-bytes", key.Key)
			if vfUFBool("verify-key-errors", kt, vfTagOf(vfDB.result.PublicKey), key.IdentityPreimage) ||
				!vfUFBool("verify-key", kt, vfTagOf(vfDB.result.PublicKey), key.IdentityPreimage) {
				ref = false
				break
			}
		}
	}
	vfAssert(res == pubsub.ValidationAccept || res == pubsub.ValidationReject, "verdict-is-accept-or-reject")
	vfAssert((res == pubsub.ValidationAccept) == ref, "accept-iff-valid")
	if res == pubsub.ValidationAccept {
		vfReach("accept")
	} else {
		vfReach("reject")
	}
}

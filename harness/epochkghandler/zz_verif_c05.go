package epochkghandler

import (
	"context"

	"github.com/jackc/pgconn"
	pubsub "github.com/libp2p/go-libp2p-pubsub"

	"github.com/shutter-network/shutter/shlib/shcrypto"

	"github.com/shutter-network/rolling-shutter/rolling-shutter/keyper/database"
	"github.com/shutter-network/rolling-shutter/rolling-shutter/p2pmsg"
)

// C05 (core) + C01 (database variant): ValidateMessage then HandleMessage of the core handlers on an
// arbitrary message against arbitrary database answers; the key-share handler emits a keys
// message exactly when every identity of the message has threshold-many usable shares in the table.

var vfH struct {
	rowsMax     int
	queryNo     int
	expectKey   []bool // per SelectDecryptionKeyShares call: do the returned rows contain t usable shares?
	keysStored  int
	sharesStored int
	combineCalls int
}

//verif:stub (*github.com/shutter-network/rolling-shutter/rolling-shutter/keyper/database.Queries).InsertDecryptionKeyShare sql=insertDecryptionKeyShare
func vfStubInsertShare(q *database.Queries, ctx context.Context, arg database.InsertDecryptionKeyShareParams) error {
	vfDB.writes++
	vfH.sharesStored++
	if vfBool("db.insert-share-fails") {
		return vfErr("db")
	}
	return nil
}

//verif:stub (*github.com/shutter-network/rolling-shutter/rolling-shutter/keyper/database.Queries).InsertDecryptionKey sql=insertDecryptionKey
func vfStubInsertKey(q *database.Queries, ctx context.Context, arg database.InsertDecryptionKeyParams) (pgconn.CommandTag, error) {
	vfDB.writes++
	vfH.keysStored++
	if vfBool("db.insert-key-fails") {
		return nil, vfErr("db")
	}
	return pgconn.CommandTag("INSERT 0 1"), nil
}

//verif:stub (github.com/jackc/pgconn.CommandTag).RowsAffected
func vfStubRowsAffected(t pgconn.CommandTag) int64 { return vfI64("rows-affected") }

//verif:stub (*github.com/shutter-network/rolling-shutter/rolling-shutter/keyper/database.Queries).ExistsDecryptionKey sql=existsDecryptionKey
func vfStubExistsKey(q *database.Queries, ctx context.Context, arg database.ExistsDecryptionKeyParams) (bool, error) {
	if vfBool("db.exists-fails") {
		return false, vfErr("db")
	}
	return vfBool("db.key-exists"), nil
}

//verif:stub (*github.com/shutter-network/rolling-shutter/rolling-shutter/keyper/database.Queries).SelectDecryptionKeyShares sql=selectDecryptionKeyShares
func vfStubSelectShares(q *database.Queries, ctx context.Context, arg database.SelectDecryptionKeySharesParams) ([]database.DecryptionKeyShare, error) {
	if vfBool("db.select-fails") {
		return nil, vfErr("db")
	}
	// contract: rows of this (eon, epoch id), primary key (eon, epoch_id, keyper_index) => distinct
	// keyper indices; only validated shares are ever inserted => 0 <= keyper_index < n
	n := vfLen("db.nrows", vfH.rowsMax)
	var rows []database.DecryptionKeyShare
	usable := uint64(0)
	id := vfUFU64("epoch-id", arg.EpochID)
	for i := 0; i < n; i++ {
		r := database.DecryptionKeyShare{Eon: arg.Eon, EpochID: arg.EpochID, KeyperIndex: vfI64("db.row.keyper"), DecryptionKeyShare: vfBytes("db.row.share", 2)}
		vfAssume(r.KeyperIndex >= 0 && uint64(r.KeyperIndex) < vfDB.result.NumKeypers)
		for _, o := range rows {
			vfAssume(o.KeyperIndex != r.KeyperIndex)
		}
		rows = append(rows, r)
		if usable < vfDB.result.Threshold && vfUFBool("share-wellformed", r.DecryptionKeyShare) &&
			vfUFBool("verify-share", vfUFU64("share-of-bytes", r.DecryptionKeyShare), vfTagOf(vfDB.result.PublicKeyShares[r.KeyperIndex]), id) {
			usable++
		}
	}
	vfH.expectKey = append(vfH.expectKey, usable >= vfDB.result.Threshold)
	return rows, nil
}

//verif:stub github.com/shutter-network/shutter/shlib/shcrypto.ComputeEpochSecretKey
func vfStubCombine(indices []int, shares []*shcrypto.EpochSecretKeyShare, threshold uint64) (*shcrypto.EpochSecretKey, error) {
	vfH.combineCalls++
	vfAssert(uint64(len(indices)) == vfDB.result.Threshold && len(indices) == len(shares), "interpolation-on-exactly-threshold-shares")
	return vfTagged[shcrypto.EpochSecretKey](vfU64("combined-key")), nil
}

//verif:stub (*github.com/shutter-network/shutter/shlib/shcrypto.EpochSecretKey).Marshal
func vfStubKeyMarshal(k *shcrypto.EpochSecretKey) []byte { return vfUFBytesN("key-bytes", 2, vfTagOf(k)) }

func H_C05_core_shares() {
	n := vfParam("keypers", 2)
	cfg := vfReceiver(n)
	vfAssume(vfDB.result.Threshold >= 1 && vfDB.result.Threshold <= uint64(n))
	vfAssume(cfg.maxKeys <= uint64(vfParam("maxkeys", 2)))
	vfH.rowsMax, vfH.queryNo, vfH.expectKey, vfH.keysStored, vfH.sharesStored, vfH.combineCalls = n, 0, nil, 0, 0, 0
	k := vfLen("msg.nshares", vfParam("shares", 2))
	msg := &p2pmsg.DecryptionKeyShares{InstanceId: vfU64("msg.instance"), Eon: vfU64("msg.eon"), KeyperIndex: vfU64("msg.keyperindex")}
	for i := 0; i < k; i++ {
		msg.Shares = append(msg.Shares, &p2pmsg.KeyShare{IdentityPreimage: vfBytes("msg.identity", 2), Share: vfBytes("msg.share", 2)})
	}
	h := &DecryptionKeyShareHandler{config: cfg}
	res, _ := h.ValidateMessage(context.Background(), msg)
	if res != pubsub.ValidationAccept {
		vfAssert(vfDB.writes == 0, "rejected-message-writes-nothing")
		vfReach("rejected")
		return
	}
	vfReach("accepted")
	out, err := h.HandleMessage(context.Background(), msg)
	if err != nil {
		vfReach("handle-error")
		return
	}
	if len(out) == 0 {
		vfReach("no-keys-yet")
		// either all keys were known already, or some identity lacks threshold-many usable shares
		if len(vfH.expectKey) == k && k > 0 {
			all := true
			for _, e := range vfH.expectKey {
				all = all && e
			}
			vfAssert(!all, "keys-message-emitted-when-every-identity-has-threshold-shares")
		}
		return
	}
	vfReach("keys-emitted")
	km := out[0].(*p2pmsg.DecryptionKeys)
	vfAssert(len(km.Keys) == k && km.Eon == msg.Eon && km.InstanceId == cfg.instance, "keys-message-covers-every-identity-of-the-shares-message")
	vfAssert(len(vfH.expectKey) == k, "one-aggregation-per-identity")
	for i := 0; i < k && i < len(km.Keys); i++ {
		vfAssert(vfDeepEq(km.Keys[i].IdentityPreimage, msg.Shares[i].IdentityPreimage), "keys-in-message-order")
		if i < len(vfH.expectKey) {
			vfAssert(vfH.expectKey[i], "key-only-from-threshold-many-usable-shares")
		}
	}
	vfAssert(vfH.keysStored == k, "emitted-keys-are-stored")
}

func H_C05_core_keys() {
	n := vfParam("keypers", 2)
	cfg := vfReceiver(n)
	vfAssume(cfg.maxKeys <= uint64(vfParam("maxkeys", 2)))
	k := vfLen("msg.nkeys", vfParam("keys", 2))
	msg := &p2pmsg.DecryptionKeys{InstanceId: vfU64("msg.instance"), Eon: vfU64("msg.eon")}
	vfDB.keyRowExists, vfDB.keyRowErr, vfDB.keyRowBytes = nil, nil, nil
	vfH.keysStored = 0
	for i := 0; i < k; i++ {
		msg.Keys = append(msg.Keys, &p2pmsg.Key{IdentityPreimage: vfBytes("msg.identity", 2), Key: vfBytes("msg.key", 2)})
		vfDB.keyRowExists = append(vfDB.keyRowExists, vfBool("db.key-stored"))
		vfDB.keyRowErr = append(vfDB.keyRowErr, vfBool("db.key-err"))
		vfDB.keyRowBytes = append(vfDB.keyRowBytes, vfBytes("db.key-bytes", 2))
	}
	switch vfLen("extra-kind", 2) {
	case 1:
		msg.Extra = &p2pmsg.DecryptionKeys_Gnosis{}
	case 2:
		msg.Extra = &p2pmsg.DecryptionKeys_Service{Service: &p2pmsg.ShutterServiceDecryptionKeysExtra{}}
	}
	h := &DecryptionKeyHandler{config: cfg}
	res, _ := h.ValidateMessage(context.Background(), msg)
	if res != pubsub.ValidationAccept {
		vfAssert(vfDB.writes == 0, "rejected-message-writes-nothing")
		vfReach("rejected")
		return
	}
	vfReach("accepted")
	_, err := h.HandleMessage(context.Background(), msg)
	if err == nil {
		vfAssert(vfH.keysStored == k, "accepted-keys-are-stored")
		vfReach("stored")
	}
}

func H_C05_core_eonpublickey() {
	msg := &p2pmsg.EonPublicKey{InstanceId: vfU64("instance"), PublicKey: vfBytes("publickey", 3), ActivationBlock: vfU64("activation"),
		KeyperConfigIndex: vfU64("cfgindex"), Eon: vfU64("eon"), Signature: vfBytes("signature", 3)}
	h := NewEonPublicKeyHandler(vfCfg{instance: vfU64("own-instance")}, nil)
	vfAssert(msg.Validate() == nil, "envelope-validation-total")
	_ = msg.LogInfo()
	res, _ := h.ValidateMessage(context.Background(), msg)
	if res != pubsub.ValidationAccept {
		vfReach("rejected")
		return
	}
	vfReach("accepted")
	out, err := h.HandleMessage(context.Background(), msg)
	vfAssert(err == nil && len(out) == 0, "eon-public-key-handler-emits-nothing")
}

package app

// Shared harness code for the shuttermint application (C09-C12): an arbitrary application
// state within small size bounds, an arbitrary decoded transaction, and the environment stubs
// (signature recovery, protobuf decoding, key decompression).

import (
	"crypto/ecdsa"
	"encoding/base64"
	"hash"

	"github.com/ethereum/go-ethereum/common"
	"github.com/ethereum/go-ethereum/crypto/ecies"
	blst "github.com/supranational/blst/bindings/go"
	"google.golang.org/protobuf/proto"

	"github.com/shutter-network/shutter/shlib/shcrypto"

	"github.com/shutter-network/rolling-shutter/rolling-shutter/shmsg"
)

func vfAddr(tag string) common.Address { return vfAny[common.Address](tag) }

// vfConfig: an arbitrary valid BatchConfig with 1..maxK pairwise distinct keypers.
func vfConfig(tag string, maxK int) *BatchConfig {
	n := 1 + vfLen(tag+".nkeypers", maxK-1)
	var ks []common.Address
	for i := 0; i < n; i++ {
		a := vfAddr(tag + ".keyper")
		for _, o := range ks {
			vfAssume(a != o)
		}
		ks = append(ks, a)
	}
	t := vfU64(tag + ".threshold")
	vfAssume(t >= 1 && t <= uint64(n))
	return &BatchConfig{
		ActivationBlockNumber: vfU64(tag + ".activation"),
		Keypers:               ks,
		Threshold:             t,
		KeyperConfigIndex:     vfU64(tag + ".index"),
		Started:               vfBool(tag + ".started"),
		ValidatorsUpdated:     vfBool(tag + ".valupd"),
	}
}

// vfPickKeyper returns one of the keypers of cfg (symbolic choice without forking is not
// possible for addresses held in a slice, so this forks) or an arbitrary address.
func vfPickKeyper(tag string, cfg *BatchConfig) common.Address {
	i := vfLen(tag+".pick", len(cfg.Keypers))
	if i < len(cfg.Keypers) {
		return cfg.Keypers[i]
	}
	return vfAddr(tag + ".outsider")
}

func vfPubkey(tag string) ValidatorPubkey {
	return ValidatorPubkey{Ed25519pubkey: string(vfBytesN(tag, vfParam("keylen", 32)))}
}

type vfAppBounds struct {
	configs, keypers, dkgs, candidates, identities, blocksSeen, validators, nonces, votes int
	// parts of the state a kernel does not read may be left at their initial (empty) value;
	// each harness states which parts it leaves out
	noFork, noCheckTx bool
	noVoting, noDKG, noIdentities, noBlocksSeen, noValidators, noNonces bool
}

// vfPartsFor leaves out the parts of the state that the handler of the given message kind does not
// read (recorded per harness as a cut): -1 keeps everything.
func vfPartsFor(b vfAppBounds, kind int) vfAppBounds {
	switch kind {
	case 0: // BatchConfig: configs, config voting, eon counter, DKG map (StartDKG inserts)
		b.noIdentities, b.noBlocksSeen, b.noValidators, b.noFork = true, true, true, true
	case 1: // BlockSeen
		b.noVoting, b.noDKG, b.noIdentities, b.noValidators, b.noFork = true, true, true, true, true
	case 2: // CheckIn
		b.noVoting, b.noDKG, b.noBlocksSeen, b.noValidators = true, true, true, true
	case 3: // DKGResult
		b.noVoting, b.noIdentities, b.noBlocksSeen, b.noValidators, b.noFork = true, true, true, true, true
	case 4, 5, 6, 7: // DKG messages
		b.noVoting, b.noIdentities, b.noBlocksSeen, b.noValidators, b.noFork = true, true, true, true, true
	case 8, 9:
		b.noVoting, b.noDKG, b.noIdentities, b.noBlocksSeen, b.noValidators, b.noFork = true, true, true, true, true, true
	}
	return b
}

func vfBounds() vfAppBounds {
	return vfAppBounds{
		configs:    vfParam("configs", 2),
		keypers:    vfParam("keypers", 2),
		dkgs:       vfParam("dkgs", 1),
		candidates: vfParam("candidates", 1),
		identities: vfParam("identities", 2),
		blocksSeen: vfParam("blocksseen", 2),
		validators: vfParam("validators", 2),
		nonces:     vfParam("nonces", 1),
		votes:      vfParam("votes", 2),
	}
}

// vfApp builds an arbitrary application state satisfying the representation invariant I of
// DESIGN.md §7 C11 (sizes bounded by b).
func vfApp(b vfAppBounds) *ShutterApp {
	app := NewShutterApp()
	// configs: valid, strictly increasing index, non-decreasing activation block
	nc := 1 + vfLen("nconfigs", b.configs-1)
	app.Configs = nil
	for i := 0; i < nc; i++ {
		c := vfConfig("cfg", b.keypers)
		if i > 0 {
			prev := app.Configs[i-1]
			vfAssume(c.KeyperConfigIndex > prev.KeyperConfigIndex)
			vfAssume(c.ActivationBlockNumber >= prev.ActivationBlockNumber)
		}
		app.Configs = append(app.Configs, c)
	}
	app.updateCheckTxMembers()
	app.ChainID = string(vfBytes("chainid", 4))
	if !b.noFork && vfBool("has-forkheights") {
		app.ForkHeights = &ForkHeights{CheckInUpdateNew: ForkHeight{Enabled: vfBool("fork.enabled"), Height: vfI64("fork.height")}}
	}
	app.LastBlockHeight = vfI64("lastblockheight")
	vfAssume(app.LastBlockHeight >= 0 && app.LastBlockHeight < 1<<62)
	app.EONCounter = vfU64("eoncounter")
	vfAssume(app.EONCounter < 1<<62)
	app.DevMode = vfBool("devmode")
	for i := 0; i < b.identities && !b.noIdentities; i++ {
		vfPutIf(vfBool("identity.present"), app.Identities, vfAddr("identity.addr"), vfPubkey("identity.key"))
	}
	for i := 0; i < b.blocksSeen && !b.noBlocksSeen; i++ {
		vfPutIf(vfBool("blockseen.present"), app.BlocksSeen, vfAddr("blockseen.addr"), vfU64("blockseen.block"))
	}
	app.Validators = make(Powermap)
	for i := 0; i < b.validators && !b.noValidators; i++ {
		p := vfI64("validator.power")
		vfAssume(p > 0)
		vfPutIf(vfBool("validator.present"), app.Validators, vfPubkey("validator.key"), p)
	}
	// DKG instances: eon <= EONCounter, voters are keypers of the instance's config, votes index candidates
	nd := vfLen("ndkgs", b.dkgs)
	if b.noDKG {
		nd = 0
	}
	for i := 0; i < nd; i++ {
		eon := vfU64("dkg.eon")
		vfAssume(eon <= app.EONCounter)
		cfg := *app.Configs[vfLen("dkg.config", nc-1)]
		cfg.Started = vfBool("dkg.cfg.started")
		cfg.ValidatorsUpdated = vfBool("dkg.cfg.valupd")
		d := NewDKGInstance(cfg, eon)
		// candidate list shape: [], [x], [x, !x]; votes of keypers index the candidates
		switch vfLen("dkg.ncandidates", 2) {
		case 1:
			d.SuccessVoting.Candidates = []bool{vfBool("dkg.cand0")}
		case 2:
			c0 := vfBool("dkg.cand0")
			d.SuccessVoting.Candidates = []bool{c0, !c0}
		}
		for _, k := range cfg.Keypers {
			if nc := len(d.SuccessVoting.Candidates); nc > 0 {
				v := vfInt("dkg.vote")
				vfAssume(v >= 0 && v < nc)
				vfPutIf(vfBool("dkg.voted"), d.SuccessVoting.Votes, k, v)
			}
			vfPutIf(vfBool("dkg.seen.commit"), d.PolyCommitmentsSeen, k, struct{}{})
			vfPutIf(vfBool("dkg.seen.accusation"), d.AccusationsSeen, k, struct{}{})
			vfPutIf(vfBool("dkg.seen.apology"), d.ApologiesSeen, k, struct{}{})
			for _, r := range cfg.Keypers {
				if r != k {
					vfPutIf(vfBool("dkg.seen.eval"), d.PolyEvalsSeen, SenderReceiverPair{k, r}, struct{}{})
				}
			}
		}
		app.DKGMap[eon] = &d
	}
	// config voting: candidates are admissible w.r.t. the last config, voters are its keypers,
	// no candidate has reached the threshold yet
	last := app.LastConfig()
	ncand := vfLen("ncandidates", b.candidates)
	if b.noVoting {
		ncand = 0
	}
	for i := 0; i < ncand; i++ {
		c := *vfConfig("candidate", b.keypers)
		c.Started, c.ValidatorsUpdated = false, false
		vfAssume(app.checkConfig(c) == nil)
		nv := vfLen("candidate.nvotes", len(last.Keypers))
		vfAssume(nv >= 1)
		for j := 0; j < nv; j++ {
			app.ConfigVoting.SetVote(last.Keypers[(i+j)%len(last.Keypers)], c)
		}
	}
	if ncand > 0 {
		_, done := app.ConfigVoting.Outcome(int(last.Threshold))
		vfAssume(!done)
	}
	// nonce trackers
	for i := 0; i < b.nonces && !b.noNonces; i++ {
		if vfBool("nonce.present") {
			app.NonceTracker.Add(vfAddr("nonce.addr"), vfU64("nonce.value"))
		}
	}
	if b.noCheckTx {
		return app
	}
	if vfBool("checktx.count.present") {
		c := vfInt("checktx.count")
		vfAssume(c >= 0 && c <= MaxTxsPerBlock)
		app.CheckTxState.TxCounts[vfAddr("checktx.count.addr")] = c
	}
	if vfBool("checktx.nonce.present") {
		app.CheckTxState.NonceTracker.Add(vfAddr("checktx.nonce.addr"), vfU64("checktx.nonce.value"))
	}
	return app
}

func vfByteList(tag string, maxN, maxLen int) [][]byte {
	n := vfLen(tag+".n", maxN)
	var out [][]byte
	for i := 0; i < n; i++ {
		out = append(out, vfBytes(tag, maxLen))
	}
	return out
}

// vfMessage: an arbitrary decoded shmsg.Message (every oneof variant, nil payloads, lists of
// byte strings of arbitrary length).
func vfMessage(listMax int) *shmsg.Message { return vfMessageKind(listMax, -1) }

func vfMessageKind(listMax, kind int) *shmsg.Message {
	addrLen := 21 // one more than an address, so that wrong lengths are covered
	if kind < 0 {
		kind = vfLen("msg.kind", 9)
	}
	switch kind {
	case 0:
		return &shmsg.Message{Payload: &shmsg.Message_BatchConfig{BatchConfig: &shmsg.BatchConfig{
			ActivationBlockNumber: vfU64("bc.activation"), Keypers: vfByteList("bc.keyper", listMax, addrLen),
			Threshold: vfU64("bc.threshold"), KeyperConfigIndex: vfU64("bc.index"),
		}}}
	case 1:
		return &shmsg.Message{Payload: &shmsg.Message_BlockSeen{BlockSeen: &shmsg.BlockSeen{BlockNumber: vfU64("bs.block")}}}
	case 2:
		return &shmsg.Message{Payload: &shmsg.Message_CheckIn{CheckIn: &shmsg.CheckIn{
			ValidatorPublicKey: vfBytes("ci.valkey", 33), EncryptionPublicKey: vfBytes("ci.enckey", 34),
		}}}
	case 3:
		return &shmsg.Message{Payload: &shmsg.Message_DkgResult{DkgResult: &shmsg.DKGResult{Success: vfBool("dr.success"), Eon: vfU64("dr.eon")}}}
	case 4:
		return &shmsg.Message{Payload: &shmsg.Message_PolyEval{PolyEval: &shmsg.PolyEval{
			Eon: vfU64("pe.eon"), Receivers: vfByteList("pe.receiver", listMax, addrLen), EncryptedEvals: vfByteList("pe.eval", listMax, 4),
		}}}
	case 5:
		return &shmsg.Message{Payload: &shmsg.Message_PolyCommitment{PolyCommitment: &shmsg.PolyCommitment{
			Eon: vfU64("pc.eon"), Gammas: vfByteList("pc.gamma", listMax, 4),
		}}}
	case 6:
		return &shmsg.Message{Payload: &shmsg.Message_Accusation{Accusation: &shmsg.Accusation{
			Eon: vfU64("ac.eon"), Accused: vfByteList("ac.accused", listMax, addrLen),
		}}}
	case 7:
		return &shmsg.Message{Payload: &shmsg.Message_Apology{Apology: &shmsg.Apology{
			Eon: vfU64("ap.eon"), Accusers: vfByteList("ap.accuser", listMax, addrLen), PolyEvals: vfByteList("ap.eval", listMax, 4),
		}}}
	case 8:
		return &shmsg.Message{} // no payload
	}
	return nil // msg.Msg absent
}

// ---- environment stubs ----

// ghost: what the decode layer yields for the transaction under test
var (
	vfDecodeFails  bool
	vfSigFails     bool
	vfProtoFails   bool
	vfTxSigner     common.Address
	vfTxMsg        *shmsg.MessageWithNonce
	vfTxRaw        []byte
)

//verif:stub (*encoding/base64.Encoding).DecodeString
func vfStubB64Decode(enc *base64.Encoding, s string) ([]byte, error) {
	if vfDecodeFails {
		return nil, vfErr("base64")
	}
	return vfTxRaw, nil
}

type vfHash struct{}

func (vfHash) Write(p []byte) (int, error) { return len(p), nil }
func (vfHash) Sum(b []byte) []byte         { return vfBytesN("sha3", 32) }
func (vfHash) Reset()                      {}
func (vfHash) Size() int                   { return 32 }
func (vfHash) BlockSize() int              { return 136 }

//verif:stub golang.org/x/crypto/sha3.New256
func vfStubSha3() hash.Hash { return vfHash{} }

//verif:stub github.com/ethereum/go-ethereum/crypto.SigToPub
func vfStubSigToPub(h, sig []byte) (*ecdsa.PublicKey, error) {
	if vfSigFails {
		return nil, vfErr("sigtopub")
	}
	return &ecdsa.PublicKey{}, nil
}

//verif:stub github.com/ethereum/go-ethereum/crypto.PubkeyToAddress
func vfStubPubkeyToAddress(p ecdsa.PublicKey) common.Address { return vfTxSigner }

//verif:stub google.golang.org/protobuf/proto.Unmarshal
func vfStubProtoUnmarshal(b []byte, m proto.Message) error {
	if vfProtoFails {
		return vfErr("proto")
	}
	mw := m.(*shmsg.MessageWithNonce)
	mw.Msg = vfTxMsg.Msg
	mw.ChainId = vfTxMsg.ChainId
	mw.RandomNonce = vfTxMsg.RandomNonce
	return nil
}

//verif:stub github.com/ethereum/go-ethereum/crypto.DecompressPubkey
func vfStubDecompress(b []byte) (*ecdsa.PublicKey, error) {
	if vfUFBool("decompress-ok", b) {
		return &ecdsa.PublicKey{}, nil
	}
	return nil, vfErr("decompress")
}

//verif:stub github.com/ethereum/go-ethereum/crypto/ecies.ImportECDSAPublic
func vfStubImportECDSA(p *ecdsa.PublicKey) *ecies.PublicKey { return &ecies.PublicKey{} }

//verif:stub github.com/ethereum/go-ethereum/crypto.FromECDSAPub
func vfStubFromECDSAPub(p *ecdsa.PublicKey) []byte { return vfUFBytesN("pubkeybytes", 4, p) }

//verif:stub (*github.com/ethereum/go-ethereum/crypto/ecies.PublicKey).ExportECDSA
func vfStubExportECDSA(p *ecies.PublicKey) *ecdsa.PublicKey { return &ecdsa.PublicKey{} }

// vfTx prepares an arbitrary transaction for decodeTx: raw bytes of arbitrary length (the
// signature-length check of GetSigner is executed on them), decode failures at every stage,
// an arbitrary signer and an arbitrary decoded message.
func vfTx(listMax int) []byte { return vfTxKind(listMax, -1) }

func vfTxKind(listMax, kind int) []byte {
	vfDecodeFails = vfBool("tx.base64-fails")
	vfSigFails = vfBool("tx.sig-fails")
	vfProtoFails = vfBool("tx.proto-fails")
	vfTxRaw = vfBytes("tx.raw", 70)
	vfTxSigner = vfAddr("tx.signer")
	vfTxMsg = &shmsg.MessageWithNonce{Msg: vfMessageKind(listMax, kind), ChainId: vfBytes("tx.chainid", 4), RandomNonce: vfU64("tx.nonce")}
	return []byte("tx")
}

//verif:stub (*github.com/shutter-network/shutter/shlib/shcrypto.Gammas).Marshal
func vfStubGammasMarshal(g *shcrypto.Gammas) []byte {
	acc := uint64(len(*g))
	for _, p := range *g {
		acc = vfUFU64("gammas-mix", acc, vfTagOf(p))
	}
	return vfUFBytesN("gammas-bytes", 4, acc)
}

//verif:stub (*github.com/supranational/blst/bindings/go.P2Affine).Uncompress
func vfStubUncompress(p *blst.P2Affine, in []byte) *blst.P2Affine {
	if !vfUFBool("g2-decompresses", in) {
		return nil
	}
	return vfTagged[blst.P2Affine](vfUFU64("g2-point", in))
}

//verif:stub (*github.com/supranational/blst/bindings/go.P2Affine).InG2
func vfStubInG2(p *blst.P2Affine) bool { return vfUFBool("in-g2", vfTagOf(p)) }

package app

import (
	"reflect"

	abcitypes "github.com/tendermint/tendermint/abci/types"

	"github.com/shutter-network/rolling-shutter/rolling-shutter/keyper/shutterevents/shtxresp"
)

// C11: governance safety as an inductive step: from an arbitrary state satisfying invariant I,
// one DeliverTx preserves I and only makes the governance moves the statement allows.

func vfValidConfig(c *BatchConfig) bool {
	return len(c.Keypers) > 0 && c.Threshold >= 1 && c.Threshold <= uint64(len(c.Keypers))
}

// vfInv is invariant I (DESIGN.md §7 C11).
func vfInv(app *ShutterApp) bool {
	if len(app.Configs) == 0 {
		return false
	}
	for i, c := range app.Configs {
		if !vfValidConfig(c) {
			return false
		}
		if i > 0 && (c.KeyperConfigIndex <= app.Configs[i-1].KeyperConfigIndex || c.ActivationBlockNumber < app.Configs[i-1].ActivationBlockNumber) {
			return false
		}
	}
	last := app.LastConfig()
	for voter, idx := range app.ConfigVoting.Votes {
		if idx < 0 || idx >= len(app.ConfigVoting.Candidates) || !last.IsKeyper(voter) {
			return false
		}
	}
	for i := range app.ConfigVoting.Candidates {
		c := &app.ConfigVoting.Candidates[i]
		if !vfValidConfig(c) || c.KeyperConfigIndex <= last.KeyperConfigIndex || c.ActivationBlockNumber < last.ActivationBlockNumber {
			return false
		}
		for j := 0; j < i; j++ {
			if reflect.DeepEqual(*c, app.ConfigVoting.Candidates[j]) {
				return false
			}
		}
		if uint64(vfVotesFor(app, i)) >= last.Threshold {
			return false
		}
	}
	for eon, d := range app.DKGMap {
		if d.Eon != eon || eon > app.EONCounter || !vfValidConfig(&d.Config) {
			return false
		}
		for voter, idx := range d.SuccessVoting.Votes {
			if idx < 0 || idx >= len(d.SuccessVoting.Candidates) || !d.Config.IsKeyper(voter) {
				return false
			}
		}
	}
	return true
}

func vfVotesFor(app *ShutterApp, cand int) int {
	n := 0
	for _, idx := range app.ConfigVoting.Votes {
		if idx == cand {
			n++
		}
	}
	return n
}

func H_C11_batchconfig_step() {
	b := vfPartsFor(vfBounds(), 0)
	b.noCheckTx = true
	app := vfApp(b)
	vfAssume(vfInv(app))
	pre := vfDeepCopy(app)
	tx := vfTxKind(vfParam("list", 2), 0)
	vfDecodeFails, vfSigFails, vfProtoFails = false, false, false // decode failures are covered under C10
	resp := app.DeliverTx(abcitypes.RequestDeliverTx{Tx: tx})
	vfAssert(vfInv(app), "invariant-preserved")
	last := pre.LastConfig()
	if len(app.Configs) != len(pre.Configs) {
		vfReach("config-accepted")
		vfAssert(len(app.Configs) == len(pre.Configs)+1 && resp.Code == shtxresp.Ok, "exactly-one-config-appended")
		nc := app.LastConfig()
		vfAssert(nc.KeyperConfigIndex > last.KeyperConfigIndex && nc.ActivationBlockNumber >= last.ActivationBlockNumber, "new-config-has-larger-index-and-no-earlier-activation")
		vfAssert(last.IsKeyper(vfTxSigner), "accepting-vote-comes-from-a-current-keyper")
		// at least threshold distinct current keypers voted for this identical config (counting the sender)
		votes := 1
		for voter, idx := range pre.ConfigVoting.Votes {
			if voter != vfTxSigner && reflect.DeepEqual(pre.ConfigVoting.Candidates[idx], *nc) {
				votes++
			}
		}
		vfAssert(uint64(votes) >= last.Threshold, "config-accepted-only-with-threshold-of-votes-for-the-identical-config")
		vfAssert(app.EONCounter == pre.EONCounter+1, "accepted-config-starts-a-fresh-eon")
		d, ok := app.DKGMap[app.EONCounter]
		vfAssert(ok && d.Eon == app.EONCounter && reflect.DeepEqual(d.Config, *nc), "eon-started-for-the-accepted-config")
		_, existed := pre.DKGMap[app.EONCounter]
		vfAssert(!existed, "eon-number-is-fresh")
		vfAssert(len(app.ConfigVoting.Votes) == 0 && len(app.ConfigVoting.Candidates) == 0, "votes-reset-on-acceptance")
		return
	}
	vfReach("no-config-accepted")
	vfAssert(app.EONCounter == pre.EONCounter, "no-eon-started-without-acceptance")
	for i := range app.Configs {
		vfAssert(reflect.DeepEqual(*app.Configs[i], *pre.Configs[i]), "accepted-configs-unchanged")
	}
	// at most one new vote, by the sender, who is a current keyper and had not voted
	for voter := range app.ConfigVoting.Votes {
		if _, had := pre.ConfigVoting.Votes[voter]; !had {
			vfReach("vote-recorded")
			vfAssert(voter == vfTxSigner && last.IsKeyper(voter), "new-vote-only-by-sending-current-keyper")
		}
	}
	for voter, idx := range pre.ConfigVoting.Votes {
		nidx, still := app.ConfigVoting.Votes[voter]
		vfAssert(still && nidx == idx, "existing-votes-unchanged-one-vote-per-sender")
	}
}

func vfFailureVotes(d *DKGInstance) int {
	n := 0
	for _, idx := range d.SuccessVoting.Votes {
		if idx >= 0 && idx < len(d.SuccessVoting.Candidates) && !d.SuccessVoting.Candidates[idx] {
			n++
		}
	}
	return n
}

func H_C11_dkgresult_step() {
	b := vfPartsFor(vfBounds(), 3)
	b.noCheckTx = true
	app := vfApp(b)
	vfAssume(vfInv(app))
	pre := vfDeepCopy(app)
	tx := vfTxKind(1, 3)
	vfDecodeFails, vfSigFails, vfProtoFails = false, false, false
	_ = app.DeliverTx(abcitypes.RequestDeliverTx{Tx: tx})
	vfAssert(vfInv(app), "invariant-preserved")
	vfAssert(len(app.Configs) == len(pre.Configs), "dkg-result-never-changes-the-keyper-sets")
	if app.EONCounter != pre.EONCounter {
		vfReach("restart")
		vfAssert(app.EONCounter == pre.EONCounter+1, "restart-uses-the-next-eon-number")
		msg := vfTxMsg.Msg.GetDkgResult()
		vfAssert(msg != nil && msg.Eon == pre.EONCounter, "restart-only-for-the-newest-eon")
		old := app.DKGMap[msg.Eon]
		vfAssert(old != nil && uint64(vfFailureVotes(old)) >= old.Config.Threshold, "restart-only-after-threshold-of-failure-reports")
		nd, ok := app.DKGMap[app.EONCounter]
		_, existed := pre.DKGMap[app.EONCounter]
		vfAssert(ok && !existed && nd.Eon == app.EONCounter && reflect.DeepEqual(nd.Config, old.Config), "restart-creates-a-fresh-eon-for-the-same-config")
	} else {
		vfReach("no-restart")
		vfAssert(len(app.DKGMap) == len(pre.DKGMap), "no-eon-created-without-restart")
	}
}

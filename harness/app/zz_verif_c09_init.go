package app

import (
	"github.com/ethereum/go-ethereum/common"
	abcitypes "github.com/tendermint/tendermint/abci/types"
	amino "github.com/tendermint/go-amino"
)

// C09 (process independence of the fork heights): a replica that has run since genesis holds the
// fork heights InitChain stored; a replica restarted from its state file holds the migration of
// those (LoadShutterAppFromFile migrates what it decodes). They agree iff what InitChain stores is
// a fixed point of the migration, for every genesis (no fork heights, the legacy field, the new
// field, both). JSON decoding of the genesis document is a stub that yields an arbitrary genesis.

var vfGenesis GenesisAppState

//verif:stub github.com/tendermint/go-amino.NewCodec
func vfStubNewCodec() *amino.Codec { return &amino.Codec{} }

//verif:stub (*github.com/tendermint/go-amino.Codec).UnmarshalJSON
func vfStubAminoUnmarshal(c *amino.Codec, bz []byte, ptr interface{}) error {
	g := ptr.(*GenesisAppState)
	*g = vfGenesis
	return nil
}

func H_C09_initchain_fork_heights_survive_restart() {
	k := 1 + vfLen("extra-keypers", 1)
	vfGenesis = GenesisAppState{Threshold: vfU64("threshold"), InitialEon: vfU64("initial-eon")}
	for i := 0; i < k; i++ {
		vfGenesis.Keypers = append(vfGenesis.Keypers, common.NewMixedcaseAddress(vfAny[common.Address]("keyper")))
	}
	vfAssume(vfGenesis.Threshold >= 1 && vfGenesis.Threshold <= uint64(k))
	for i := 0; i < k; i++ {
		for j := 0; j < i; j++ {
			vfAssume(vfGenesis.Keypers[i].Address() != vfGenesis.Keypers[j].Address())
		}
	}
	switch vfLen("fork-heights-kind", 3) {
	case 0: // genesis without fork heights
	case 1: // legacy field only
		h := vfI64("legacy-height")
		vfGenesis.ForkHeights = &ForkHeights{CheckInUpdate: &h}
	case 2: // new field only
		vfGenesis.ForkHeights = &ForkHeights{CheckInUpdateNew: ForkHeight{Enabled: vfBool("enabled"), Height: vfI64("height")}}
	case 3: // both
		h := vfI64("legacy-height")
		vfGenesis.ForkHeights = &ForkHeights{CheckInUpdate: &h, CheckInUpdateNew: ForkHeight{Enabled: vfBool("enabled"), Height: vfI64("height")}}
	}
	a := NewShutterApp()
	_ = a.InitChain(abcitypes.RequestInitChain{ChainId: "chain"})
	vfAssert(a.ForkHeights != nil, "fork-heights-present-after-initchain")
	restarted := migrateForkHeights(vfDeepCopy(a.ForkHeights)) // what a reload of the saved state yields
	vfAssert(vfDeepEq(restarted, a.ForkHeights), "restarted-replica-holds-the-same-fork-heights")
	vfReach("initialised")
}

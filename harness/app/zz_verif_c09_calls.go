package app

import (
	abcitypes "github.com/tendermint/tendermint/abci/types"
	tmproto "github.com/tendermint/tendermint/proto/tendermint/types"
)

// C09: every ABCI call is a function of (state, request) only. The call is executed twice from
// deep-equal states; every range over a map draws an independent symbolic visiting order in each
// run; responses and successor states must be deep-equal.

func H_C09_delivertx() {
	kind := vfParam("kind", -1)
	b := vfPartsFor(vfBounds(), kind)
	b.noCheckTx = true
	app1 := vfApp(b)
	app2 := vfDeepCopy(app1)
	tx := vfTxKind(vfParam("list", 2), kind)
	r1 := app1.DeliverTx(abcitypes.RequestDeliverTx{Tx: tx})
	r2 := app2.DeliverTx(abcitypes.RequestDeliverTx{Tx: tx})
	// Log/Info are free-text diagnostics that Tendermint excludes from the results hash
	r1.Log, r2.Log, r1.Info, r2.Info = "", "", "", ""
	vfAssert(vfDeepEq(r1, r2), "delivertx-response-independent-of-map-order")
	vfAssert(vfDeepEq(app1, app2), "delivertx-state-independent-of-map-order")
	vfReach("compared")
}

func H_C09_endblock() {
	b := vfBounds()
	b.noFork, b.noCheckTx, b.noVoting, b.noDKG, b.noNonces = true, true, true, true, true
	app1 := vfApp(b)
	app2 := vfDeepCopy(app1)
	req := abcitypes.RequestEndBlock{Height: vfI64("height")}
	r1 := app1.EndBlock(req)
	r2 := app2.EndBlock(req)
	vfAssert(vfDeepEq(r1, r2), "endblock-response-independent-of-map-order")
	vfAssert(vfDeepEq(app1, app2), "endblock-state-independent-of-map-order")
	if len(r1.ValidatorUpdates) > 1 {
		vfReach("several-validator-updates")
	}
	vfReach("compared")
}

func H_C09_beginblock_checktx_commit() {
	b := vfBounds()
	b.noVoting, b.noDKG, b.noIdentities, b.noBlocksSeen, b.noValidators, b.noFork = true, true, true, true, true, true
	app1 := vfApp(b)
	app2 := vfDeepCopy(app1)
	switch vfLen("call", 2) {
	case 0:
		req := abcitypes.RequestBeginBlock{Header: tmproto.Header{Height: vfI64("height")}}
		vfAssert(vfDeepEq(app1.BeginBlock(req), app2.BeginBlock(req)), "beginblock-response-independent-of-map-order")
		vfReach("beginblock")
	case 1:
		tx := vfTxKind(1, 1)
		app0 := vfDeepCopy(app1)
		c1, c2 := app1.CheckTx(abcitypes.RequestCheckTx{Tx: tx}), app2.CheckTx(abcitypes.RequestCheckTx{Tx: tx})
		// mempool traffic differs from node to node: CheckTx must leave the consensus state alone
		vfAssert(vfDeepEq(app1.NonceTracker, app0.NonceTracker) && vfDeepEq(app1.Configs, app0.Configs) && vfDeepEq(app1.DKGMap, app0.DKGMap) &&
			vfDeepEq(app1.ConfigVoting, app0.ConfigVoting) && vfDeepEq(app1.Identities, app0.Identities) && vfDeepEq(app1.BlocksSeen, app0.BlocksSeen) &&
			vfDeepEq(app1.Validators, app0.Validators) && app1.EONCounter == app0.EONCounter && app1.LastBlockHeight == app0.LastBlockHeight,
			"checktx-leaves-the-consensus-state-unchanged")
		c1.Log, c2.Log, c1.Info, c2.Info = "", "", "", ""
		vfAssert(vfDeepEq(c1, c2), "checktx-response-independent-of-map-order")
		vfReach("checktx")
	case 2:
		vfAssert(vfDeepEq(app1.Commit(), app2.Commit()), "commit-response-independent-of-map-order")
		vfReach("commit")
	}
	vfAssert(vfDeepEq(app1, app2), "state-independent-of-map-order")
}

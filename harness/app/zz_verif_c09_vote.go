package app

import "github.com/ethereum/go-ethereum/common"

// C09: the outcome of a vote must be a function of the votes, not of map iteration order.
// n distinct voters, arbitrary votes on {true,false}, arbitrary threshold; Outcome is evaluated
// twice (each evaluation draws its own symbolic iteration orders).
func H_C09_vote_order_bool() {
	n := vfParam("voters", 4)
	v := NewVoting[bool, ComparableEquals[bool]]()
	var voters []common.Address
	for i := 0; i < n; i++ {
		a := vfAny[common.Address]("voter")
		for _, o := range voters {
			vfAssume(a != o)
		}
		voters = append(voters, a)
		err := v.AddVote(a, vfBool("vote"))
		vfAssert(err == nil, "distinct-voters-accepted")
	}
	t := vfInt("threshold")
	vfAssume(t >= 1 && t <= n)
	r1, ok1 := v.Outcome(t)
	r2, ok2 := v.Outcome(t)
	vfAssert(ok1 == ok2, "outcome-exists-order-independent")
	if ok1 && ok2 {
		vfReach("both-have-outcome")
		vfAssert(r1 == r2, "outcome-value-order-independent")
	} else {
		vfReach("no-outcome")
	}
}

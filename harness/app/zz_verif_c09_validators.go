package app

// C09 (validator updates): the updates EndBlock hands to Tendermint are built by ranging over
// power maps and then sorted. Two replicas iterate the maps in different orders; the returned
// slice must be identical (same entries in the same order), otherwise the block results differ.

func H_C09_validator_updates_order() {
	oldpm := vfPowermap("old", vfParam("old", 2), true)
	newpm := vfPowermap("new", vfParam("new", 2), false)
	a := DiffPowermaps(oldpm, newpm).ValidatorUpdates() // independent symbolic iteration orders
	b := DiffPowermaps(oldpm, newpm).ValidatorUpdates()
	vfAssert(len(a) == len(b), "same-number-of-updates")
	vfAssert(vfDeepEq(a, b), "validator-updates-independent-of-map-order")
	if len(a) >= 2 {
		vfReach("several-updates")
	}
}

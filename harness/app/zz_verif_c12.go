package app

import (
	"bytes"

	"github.com/ethereum/go-ethereum/common"
)

// ---- C12 (1): DiffPowermaps + ValidatorUpdates, applied the way Tendermint does, turn old into new.

func vfPowermap(tag string, n int, positive bool) Powermap {
	pm := make(Powermap)
	for i := 0; i < n; i++ {
		k := ValidatorPubkey{Ed25519pubkey: string(vfBytesN(tag+".key", vfParam("keylen", 32)))}
		p := vfI64(tag + ".power")
		if positive {
			vfAssume(p > 0)
		} else {
			vfAssume(p >= 0)
		}
		vfPutIf(vfBool(tag+".present"), pm, k, p)
	}
	return pm
}

func H_C12_diff_apply() {
	oldpm := vfPowermap("old", vfParam("old", 2), true) // Tendermint's current set: positive powers only
	newpm := vfPowermap("new", vfParam("new", 2), false)
	ups := DiffPowermaps(oldpm, newpm).ValidatorUpdates()
	cur := make(Powermap)
	for k, p := range oldpm {
		cur[k] = p
	}
	var prev []byte
	for i, u := range ups {
		key := u.PubKey.GetEd25519()
		vfAssert(key != nil, "update-has-ed25519-key")
		if i > 0 {
			vfAssert(bytes.Compare(prev, key) < 0, "updates-sorted-no-duplicates")
		}
		pk := ValidatorPubkey{Ed25519pubkey: string(key)}
		vfAssert(u.Power >= 0, "power-non-negative")
		if u.Power == 0 {
			_, present := cur[pk]
			vfAssert(present, "removal-names-present-validator")
			delete(cur, pk)
			vfReach("removal")
		} else {
			cur[pk] = u.Power
			vfReach("set")
		}
		prev = key
	}
	if len(ups) == 0 {
		vfReach("no-updates")
	}
	// cur == new up to zero-power entries
	for k, p := range newpm {
		c, ok := cur[k]
		if p != 0 {
			vfAssert(ok && c == p, "every-intended-validator-has-its-power")
		} else {
			vfAssert(!ok, "zero-power-validator-absent")
		}
	}
	for k, c := range cur {
		vfAssert(newpm[k] == c, "no-unintended-validator")
	}
}

// ---- C12 (2): quorum arithmetic at full width.

func H_C12_quorum() {
	n := vfInt("n")
	vfAssume(n >= 0 && n < 1<<31)
	t := vfU64("t")
	cfg := &BatchConfig{Keypers: vfOpaqueSlice[common.Address](n), Threshold: t}
	r := numRequiredTransitionValidators(cfg)
	if n == 0 {
		vfAssert(r == 0, "empty-set-needs-nobody")
		vfReach("n-zero")
		return
	}
	un := uint64(n)
	ceilThird := (un + 2) / 3
	def := un - ceilThird + 1
	if t >= def {
		vfAssert(r == t, "threshold-dominates")
		vfReach("threshold")
	} else {
		vfAssert(r == def, "two-thirds-dominates")
		vfReach("two-thirds")
	}
	vfAssert(r >= t && r >= def, "max-of-both")
	// liveness arithmetic: def checked-in keypers hold more than 2/3 of the power
	vfAssert(3*def > 2*un, "quorum-exceeds-two-thirds")
	vfAssert(def <= un, "quorum-attainable")
}

package app

import (
	"github.com/ethereum/go-ethereum/common"
	abcitypes "github.com/tendermint/tendermint/abci/types"
	"encoding/gob"
	"io"
	"io/fs"
	"os"
	"time"
)

// C13 (file protocol kernel only): PersistToDisk must never expose a partially written state
// file under the live path. The file system is a ghost: every os / gob call is a stub that updates
// it, any call may fail, and the invariant "the live file is the previous complete file or the new
// complete, synced file" is asserted after every single call, i.e. at every possible crash point.
// What gob writes and whether decoding it restores the application is outside the encoder.

type vfFile struct {
	exists   bool
	version  int  // 0: previous state file, 1: the one being written
	complete bool // all bytes written
	synced   bool // flushed to stable storage
}

var vfFS struct {
	live, tmp vfFile
	livePath  string
	tmpPath   string
	handle    *os.File
	steps     int
	leftover     bool // a temporary file of an interrupted earlier save exists
	leftoverKept bool // ... and was not truncated when the temporary file was opened
}

func vfCrashPoint() {
	vfFS.steps++
	l := vfFS.live
	vfAssert(!l.exists || (l.complete && l.synced), "live-state-file-is-always-complete-and-durable")
	vfAssert(l.exists == vfFSHadLive || l.version == 1, "previous-state-file-is-not-removed")
}

var vfFSHadLive bool

//verif:stub os.Create
func vfStubCreate(name string) (*os.File, error) {
	vfAssert(name != vfFS.livePath, "live-state-file-is-never-opened-for-writing")
	if vfBool("create-fails") {
		vfCrashPoint()
		return nil, vfErr("create")
	}
	vfFS.tmpPath = name
	vfFS.tmp = vfFile{exists: true, version: 1}
	vfFS.handle = &os.File{}
	vfCrashPoint()
	return vfFS.handle, nil
}

// Opening the temporary file without truncation appends to whatever an interrupted earlier save
// left behind: the result is not the encoding of the state.
//
//verif:stub os.OpenFile
func vfStubOpenFile(name string, flag int, perm os.FileMode) (*os.File, error) {
	vfAssert(name != vfFS.livePath, "live-state-file-is-never-opened-for-writing")
	if vfBool("create-fails") {
		vfCrashPoint()
		return nil, vfErr("open")
	}
	vfFS.tmpPath = name
	vfFS.tmp = vfFile{exists: true, version: 1}
	vfFS.leftoverKept = vfFS.leftover && flag&os.O_TRUNC == 0
	vfFS.handle = &os.File{}
	vfCrashPoint()
	return vfFS.handle, nil
}

//verif:stub encoding/gob.NewEncoder
func vfStubNewEncoder(w io.Writer) *gob.Encoder {
	f, ok := w.(*os.File)
	vfAssert(ok && f == vfFS.handle, "state-is-encoded-into-the-temporary-file")
	return &gob.Encoder{}
}

//verif:stub (*encoding/gob.Encoder).Encode
func vfStubEncode(e *gob.Encoder, v interface{}) error {
	if vfLive != nil {
		// what is written is the application itself (or an equal copy): every field, including the
		// mempool's member set, which only InitChain and a new configuration rebuild
		a, ok := v.(*ShutterApp)
		vfAssert(ok, "state-is-encoded-as-a-whole")
		if ok && a != vfLive {
			vfAssert(vfSameState(a, vfLive) && a.CheckTxState != nil && vfDeepEq(a.CheckTxState.Members, vfLive.CheckTxState.Members), "the-saved-state-is-the-application-state")
		}
	}
	if a, ok := v.(*ShutterApp); ok && a.CheckTxState != nil {
		// the mempool bookkeeping of the committed block differs from node to node; what is saved
		// must be the state every node has after Commit
		vfAssert(len(a.CheckTxState.TxCounts) == 0 && (a.CheckTxState.NonceTracker == nil || len(a.CheckTxState.NonceTracker.RandomNonces) == 0), "saved-state-carries-no-mempool-bookkeeping")
	}
	if vfBool("encode-fails") {
		vfFS.tmp.complete = false // some prefix was written
		vfCrashPoint()
		return vfErr("encode")
	}
	vfFS.tmp.complete = !vfFS.leftoverKept
	vfFS.tmp.synced = false
	vfCrashPoint()
	return nil
}

//verif:stub (*os.File).Sync
func vfStubSync(f *os.File) error {
	vfAssert(f == vfFS.handle, "sync-of-the-temporary-file")
	if vfBool("sync-fails") {
		vfCrashPoint()
		return vfErr("sync")
	}
	vfFS.tmp.synced = true
	vfCrashPoint()
	return nil
}

//verif:stub (*os.File).Close
func vfStubClose(f *os.File) error {
	vfCrashPoint()
	if vfBool("close-fails") {
		return vfErr("close")
	}
	return nil
}

//verif:stub os.Rename
func vfStubRename(oldpath, newpath string) error {
	// a leftover temporary file may be incomplete (the crash can have happened anywhere in the
	// write): while loading, nothing may be moved over the last complete state file
	vfAssert(!vfLd.loading || newpath != vfLd.path, "loading-never-replaces-the-state-file")
	if vfLd.loading {
		return nil
	}
	if vfBool("rename-fails") {
		vfCrashPoint()
		return vfErr("rename")
	}
	vfAssert(oldpath == vfFS.tmpPath && newpath == vfFS.livePath, "rename-moves-the-temporary-file-over-the-live-file")
	if oldpath == vfFS.tmpPath && newpath == vfFS.livePath {
		vfFS.live = vfFS.tmp // atomic replace (POSIX rename)
		vfFS.tmp = vfFile{}
	}
	vfCrashPoint()
	return nil
}

var vfLive *ShutterApp // the application whose state is being saved

// vfSameState: equality of everything consensus depends on (LastSaved is a wall-clock value)
func vfSameState(a, b *ShutterApp) bool {
	return vfDeepEq(a.Configs, b.Configs) && vfDeepEq(a.DKGMap, b.DKGMap) && vfDeepEq(a.ConfigVoting, b.ConfigVoting) &&
		a.Gobpath == b.Gobpath && a.LastBlockHeight == b.LastBlockHeight && vfDeepEq(a.Identities, b.Identities) &&
		vfDeepEq(a.BlocksSeen, b.BlocksSeen) && vfDeepEq(a.Validators, b.Validators) && a.EONCounter == b.EONCounter &&
		a.DevMode == b.DevMode && vfDeepEq(a.NonceTracker, b.NonceTracker) && a.ChainID == b.ChainID && vfDeepEq(a.ForkHeights, b.ForkHeights)
}

// vfPopulate gives the application some state that a save must neither lose nor change: a
// configuration with its mempool member set, key generation instances of old and new eons
func vfPopulate(app *ShutterApp) {
	k := vfAny[common.Address]("keyper")
	app.Configs = []*BatchConfig{{Keypers: []common.Address{k}, Threshold: 1}}
	app.updateCheckTxMembers()
	app.EONCounter = vfU64("eoncounter")
	e := vfU64("old-eon")
	vfAssume(e <= app.EONCounter)
	d := NewDKGInstance(*app.Configs[0], e)
	app.DKGMap[e] = &d
	app.BlocksSeen[k] = vfU64("block-seen")
}

func H_C13_persist_file_protocol() {
	app := NewShutterApp()
	vfPopulate(app)
	vfLive = app
	before := vfDeepCopy(app)
	defer func() { vfLive = nil }()
	app.Gobpath = string(vfBytes("gobpath", 4))
	before.Gobpath = app.Gobpath
	app.LastBlockHeight = vfI64("height")
	before.LastBlockHeight = app.LastBlockHeight
	vfFS.livePath = app.Gobpath
	vfFSHadLive = vfBool("previous-file-exists")
	vfFS.live = vfFile{exists: vfFSHadLive, version: 0, complete: true, synced: true}
	vfFS.tmp, vfFS.tmpPath, vfFS.handle, vfFS.steps = vfFile{}, "", nil, 0
	vfFS.leftover, vfFS.leftoverKept = vfBool("leftover-temporary-file"), false
	err := app.PersistToDisk()
	vfCrashPoint()
	// when and whether a node saves depends on its wall clock: saving must not touch the state
	vfAssert(vfSameState(app, before) && vfDeepEq(app.CheckTxState.Members, before.CheckTxState.Members), "saving-does-not-change-the-application-state")
	if err == nil {
		vfAssert(vfFS.live.exists && vfFS.live.version == 1, "successful-save-installs-the-new-file")
		vfReach("saved")
	} else {
		vfAssert(vfFS.live.version == 0 || !vfFS.live.exists || (vfFS.live.complete && vfFS.live.synced), "failed-save-leaves-a-loadable-file")
		vfReach("save-failed")
	}
}

// ---- loading: a missing file means a fresh application, every other failure is reported ----

// what a loader may find out about a leftover temporary file
type vfFileInfo struct {
	size    int64
	regular bool
}

func (i vfFileInfo) Name() string { return "shutter.gob.tmp" }
func (i vfFileInfo) Size() int64  { return i.size }
func (i vfFileInfo) Mode() fs.FileMode {
	if i.regular {
		return 0o600
	}
	return fs.ModeDir | 0o700
}
func (i vfFileInfo) ModTime() time.Time { return time.Time{} }
func (i vfFileInfo) IsDir() bool        { return !i.regular }
func (i vfFileInfo) Sys() any           { return nil }

func vfStat(name string) (os.FileInfo, error) {
	if vfLd.loading && name != vfLd.path && vfBool("leftover-temporary-file-exists") {
		sz := vfI64("leftover-size")
		vfAssume(sz >= 0)
		return vfFileInfo{size: sz, regular: vfBool("leftover-is-regular")}, nil
	}
	if vfLd.loading && name == vfLd.path && vfLd.kind != 0 {
		return vfFileInfo{size: 1, regular: true}, nil
	}
	return nil, vfLd.notExist
}

//verif:stub os.Stat
func vfStubStat(name string) (os.FileInfo, error) { return vfStat(name) }

//verif:stub os.Lstat
func vfStubLstat(name string) (os.FileInfo, error) { return vfStat(name) }

//verif:stub os.Remove
func vfStubRemove(name string) error {
	vfAssert(!vfLd.loading || name != vfLd.path, "loading-never-removes-the-state-file")
	return nil
}

var vfLd struct {
	loading     bool
	path        string
	kind        int // 0: file missing, 1: open fails otherwise, 2: decode fails, 3: ok
	notExist    error
	savedHeight int64
	decoded     bool
}

//verif:stub os.Open
func vfStubOpen(name string) (*os.File, error) {
	switch vfLd.kind {
	case 0:
		return nil, vfLd.notExist
	case 1:
		return nil, vfErr("open")
	}
	return &os.File{}, nil
}

//verif:stub os.IsNotExist
func vfStubIsNotExist(err error) bool { return err != nil && err == vfLd.notExist }

//verif:stub encoding/gob.NewDecoder
func vfStubNewDecoder(r io.Reader) *gob.Decoder { return &gob.Decoder{} }

//verif:stub (*encoding/gob.Decoder).Decode
func vfStubDecode(d *gob.Decoder, v interface{}) error {
	if vfLd.kind == 2 {
		return vfErr("decode")
	}
	app := v.(*ShutterApp)
	*app = *NewShutterApp()
	app.LastBlockHeight = vfLd.savedHeight
	if vfBool("saved-without-fork-heights") {
		app.ForkHeights = nil
	}
	vfLd.decoded = true
	return nil
}

func H_C13_load_protocol() {
	vfLd.kind = vfLen("load-kind", 3)
	vfLd.notExist = vfErr("not-exist")
	vfLd.savedHeight = vfI64("saved-height")
	vfAssume(vfLd.savedHeight >= 0)
	vfLd.decoded = false
	path := string(vfBytes("gobpath", 4))
	vfLd.loading, vfLd.path = true, path
	defer func() { vfLd.loading = false }()
	app, err := LoadShutterAppFromFile(path)
	switch vfLd.kind {
	case 0:
		vfAssert(err == nil && app.LastBlockHeight == 0 && app.Gobpath == path, "missing-file-starts-a-fresh-application")
		vfReach("fresh")
	case 1, 2:
		vfAssert(err != nil, "unreadable-state-file-is-reported-not-replaced-by-a-fresh-state")
		vfReach("reported")
	case 3:
		vfAssert(err == nil && vfLd.decoded, "state-file-is-decoded")
		vfAssert(app.Gobpath == path, "loaded-application-saves-to-the-same-path")
		vfAssert(app.ForkHeights != nil, "fork-heights-present-after-load")
		info := app.Info(abcitypes.RequestInfo{})
		vfAssert(info.LastBlockHeight == vfLd.savedHeight, "tendermint-is-told-the-saved-height-so-it-replays-the-blocks-after-it")
		vfReach("loaded")
	}
}

// Commit: the save is attempted from Commit (at most every PersistMinDuration), follows the same
// file protocol, and a failing save does not disturb consensus (Commit still answers).
func H_C13_commit_persists() {
	app := NewShutterApp()
	if vfBool("has-gobpath") {
		app.Gobpath = string(vfBytes("gobpath", 4))
		vfAssume(len(app.Gobpath) > 0)
	}
	app.LastBlockHeight = vfI64("height")
	vfFS.livePath = app.Gobpath
	vfFSHadLive = vfBool("previous-file-exists")
	vfFS.live = vfFile{exists: vfFSHadLive, version: 0, complete: true, synced: true}
	vfFS.tmp, vfFS.tmpPath, vfFS.handle, vfFS.steps = vfFile{}, "", nil, 0
	vfFS.leftover, vfFS.leftoverKept = vfBool("leftover-temporary-file"), false
	// transactions seen by CheckTx during the block (they differ from node to node)
	if vfBool("mempool-traffic") {
		app.CheckTxState.TxCounts[vfAny[common.Address]("mempool-sender")] = 1
	}
	_ = app.Commit()
	vfCrashPoint()
	if app.Gobpath == "" {
		vfAssert(vfFS.steps == 1, "no-file-is-touched-without-a-configured-path")
		vfReach("no-path")
	} else if vfFS.live.version == 1 {
		vfReach("saved-from-commit")
	} else {
		vfReach("not-saved-this-time")
	}
}

// The height Info reports after a restart is the one EndBlock recorded: every EndBlock, in dev
// mode or not, with or without validator changes, records the height of the block it ends.
func H_C13_endblock_records_height() {
	b := vfBounds()
	b.noFork, b.noCheckTx = true, true
	app := vfApp(b) // DevMode is arbitrary
	h := vfI64("height")
	_ = app.EndBlock(abcitypes.RequestEndBlock{Height: h})
	vfAssert(app.LastBlockHeight == h, "endblock-records-the-block-height")
	vfAssert(app.Info(abcitypes.RequestInfo{}).LastBlockHeight == h, "info-reports-the-last-ended-block")
	if app.DevMode {
		vfReach("dev-mode")
	} else {
		vfReach("normal-mode")
	}
}

package app

import "github.com/ethereum/go-ethereum/common"

// C07 (2): shuttermint admits one commitment / accusation / apology per sender and one
// evaluation per sender-receiver pair, only from keypers of the eon's config about keypers of it,
// and a refused message leaves the registers unchanged.

func vfIn(a common.Address, list []common.Address) bool {
	for _, x := range list {
		if x == a {
			return true
		}
	}
	return false
}

func vfDKGInstance() *DKGInstance {
	cfg := *vfConfig("cfg", vfParam("keypers", 3))
	d := NewDKGInstance(cfg, vfU64("eon"))
	for _, k := range cfg.Keypers {
		vfPutIf(vfBool("seen.commit"), d.PolyCommitmentsSeen, k, struct{}{})
		vfPutIf(vfBool("seen.accusation"), d.AccusationsSeen, k, struct{}{})
		vfPutIf(vfBool("seen.apology"), d.ApologiesSeen, k, struct{}{})
		for _, r := range cfg.Keypers {
			if r != k {
				vfPutIf(vfBool("seen.eval"), d.PolyEvalsSeen, SenderReceiverPair{k, r}, struct{}{})
			}
		}
	}
	return &d
}

func vfAddrList(tag string, max int) []common.Address {
	n := vfLen(tag+".n", max)
	out := []common.Address{}
	for i := 0; i < n; i++ {
		out = append(out, vfAddr(tag))
	}
	return out
}

func H_C07_register_commitment() {
	d := vfDKGInstance()
	pre := vfDeepCopy(d)
	msg := PolyCommitment{Sender: vfAddr("sender"), Eon: vfU64("msg.eon")}
	err := d.RegisterPolyCommitmentMsg(msg)
	if err == nil {
		vfReach("admitted")
		_, before := pre.PolyCommitmentsSeen[msg.Sender]
		vfAssert(msg.Eon == d.Eon && vfIn(msg.Sender, d.Config.Keypers) && !before, "admitted-only-first-commitment-of-a-keyper-of-this-eon")
		_, after := d.PolyCommitmentsSeen[msg.Sender]
		vfAssert(after, "admission-recorded")
		delete(d.PolyCommitmentsSeen, msg.Sender)
		vfAssert(vfDeepEq(pre, d), "nothing-else-changed")
	} else {
		vfReach("refused")
		vfAssert(vfDeepEq(pre, d), "refused-message-changes-nothing")
		_, before := pre.PolyCommitmentsSeen[msg.Sender]
		vfAssert(!(msg.Eon == d.Eon && vfIn(msg.Sender, d.Config.Keypers) && !before), "honest-first-commitment-is-admitted")
	}
}

func H_C07_register_accusation() {
	d := vfDKGInstance()
	pre := vfDeepCopy(d)
	msg := Accusation{Sender: vfAddr("sender"), Eon: vfU64("msg.eon"), Accused: vfAddrList("accused", vfParam("list", 2))}
	err := d.RegisterAccusationMsg(msg)
	ok := msg.Eon == d.Eon && vfIn(msg.Sender, d.Config.Keypers)
	for _, a := range msg.Accused {
		ok = ok && vfIn(a, d.Config.Keypers) && a != msg.Sender
	}
	_, before := pre.AccusationsSeen[msg.Sender]
	ok = ok && !before
	vfAssert((err == nil) == ok, "admitted-iff-first-wellformed-accusation-of-a-keyper")
	if err == nil {
		vfReach("admitted")
		_, after := d.AccusationsSeen[msg.Sender]
		vfAssert(after, "admission-recorded")
		delete(d.AccusationsSeen, msg.Sender)
	} else {
		vfReach("refused")
	}
	vfAssert(vfDeepEq(pre, d), "only-the-senders-register-entry-changes")
}

func H_C07_register_apology() {
	d := vfDKGInstance()
	pre := vfDeepCopy(d)
	msg := Apology{Sender: vfAddr("sender"), Eon: vfU64("msg.eon"), Accusers: vfAddrList("accuser", vfParam("list", 2))}
	err := d.RegisterApologyMsg(msg)
	ok := msg.Eon == d.Eon && vfIn(msg.Sender, d.Config.Keypers)
	for _, a := range msg.Accusers {
		ok = ok && vfIn(a, d.Config.Keypers) && a != msg.Sender
	}
	_, before := pre.ApologiesSeen[msg.Sender]
	ok = ok && !before
	vfAssert((err == nil) == ok, "admitted-iff-first-wellformed-apology-of-a-keyper")
	if err == nil {
		vfReach("admitted")
		delete(d.ApologiesSeen, msg.Sender)
	} else {
		vfReach("refused")
	}
	vfAssert(vfDeepEq(pre, d), "only-the-senders-register-entry-changes")
}

func H_C07_register_polyeval() {
	d := vfDKGInstance()
	pre := vfDeepCopy(d)
	msg := PolyEval{Sender: vfAddr("sender"), Eon: vfU64("msg.eon"), Receivers: vfAddrList("receiver", vfParam("list", 2))}
	for i, r := range msg.Receivers { // ParsePolyEvalMsg admits only pairwise distinct receivers
		for j := 0; j < i; j++ {
			vfAssume(r != msg.Receivers[j])
		}
	}
	err := d.RegisterPolyEvalMsg(msg)
	ok := msg.Eon == d.Eon && vfIn(msg.Sender, d.Config.Keypers)
	for _, r := range msg.Receivers {
		_, before := pre.PolyEvalsSeen[SenderReceiverPair{msg.Sender, r}]
		ok = ok && vfIn(r, d.Config.Keypers) && r != msg.Sender && !before
	}
	vfAssert((err == nil) == ok, "admitted-iff-every-pair-is-new-and-wellformed")
	if err == nil {
		vfReach("admitted")
		for _, r := range msg.Receivers {
			_, after := d.PolyEvalsSeen[SenderReceiverPair{msg.Sender, r}]
			vfAssert(after, "pair-recorded")
			delete(d.PolyEvalsSeen, SenderReceiverPair{msg.Sender, r})
		}
	} else {
		vfReach("refused")
	}
	vfAssert(vfDeepEq(pre, d), "only-the-admitted-pairs-change")
}

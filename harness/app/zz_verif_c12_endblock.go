package app

import (
	"bytes"

	"github.com/ethereum/go-ethereum/common"
	abcitypes "github.com/tendermint/tendermint/abci/types"
)

// reference: the validator set the application intends for a config (property statement):
// ten units per keyper, parked on the placeholder key for keypers that have not checked in.
func vfIntended(app *ShutterApp, cfg *BatchConfig) Powermap {
	pm := make(Powermap)
	for _, k := range cfg.Keypers {
		if id, ok := app.Identities[k]; ok {
			pm[id] += 10
		} else {
			pm[NonExistentValidator] += 10
		}
	}
	return pm
}

func vfCheckedIn(app *ShutterApp, cfg *BatchConfig) uint64 {
	var n uint64
	for _, k := range cfg.Keypers {
		if _, ok := app.Identities[k]; ok {
			n++
		}
	}
	return n
}

// vfApplyUpdates folds validator updates over a validator set the way Tendermint does and
// asserts Tendermint's acceptance rules (sorted, no duplicates, removals name present keys).
func vfApplyUpdates(cur Powermap, ups []abcitypes.ValidatorUpdate) {
	var prev []byte
	for i, u := range ups {
		key := u.PubKey.GetEd25519()
		vfAssert(key != nil, "update-has-ed25519-key")
		if i > 0 {
			vfAssert(bytes.Compare(prev, key) < 0, "updates-sorted-no-duplicates")
		}
		pk := ValidatorPubkey{Ed25519pubkey: string(key)}
		vfAssert(u.Power >= 0, "power-non-negative")
		if u.Power == 0 {
			_, present := cur[pk]
			vfAssert(present, "removal-names-present-validator")
			delete(cur, pk)
		} else {
			cur[pk] = u.Power
		}
		prev = key
	}
}

// C12 (3): one EndBlock from an arbitrary valid state.
func H_C12_endblock() {
	b := vfBounds()
	// EndBlock reads Configs, BlocksSeen, Identities, Validators, DevMode only: fork heights, DKG
	// instances, votes and nonce trackers are left empty (dkgs/candidates/nonces = 0 in the config)
	b.noFork, b.noCheckTx = true, true
	app := vfApp(b)
	vfAssume(!app.DevMode)
	nc := len(app.Configs)
	preStarted := make([]bool, nc)
	preUpdated := make([]bool, nc)
	for i, c := range app.Configs {
		preStarted[i], preUpdated[i] = c.Started, c.ValidatorsUpdated
	}
	prev := make(Powermap)
	for k, p := range app.Validators {
		prev[k] = p
	}
	resp := app.EndBlock(abcitypes.RequestEndBlock{Height: vfI64("height")})

	// the validator set the application now holds is the intended one
	newest := -1
	for i := nc - 1; i >= 0; i-- {
		if app.Configs[i].Started && app.Configs[i].ValidatorsUpdated {
			newest = i
			break
		}
	}
	if newest >= 0 {
		vfReach("has-active-config")
		vfAssert(vfDeepEq(app.Validators, vfIntended(app, app.Configs[newest])), "validators-are-the-intended-set")
	} else {
		vfReach("no-active-config")
		vfAssert(vfDeepEq(app.Validators, prev), "validators-unchanged-without-active-config")
	}
	// the returned updates, applied Tendermint's way, lead from the previous set to it
	vfApplyUpdates(prev, resp.ValidatorUpdates)
	vfAssert(vfDeepEq(prev, app.Validators), "updates-lead-to-held-set")
	if len(resp.ValidatorUpdates) > 0 {
		vfReach("some-updates")
	}
	// flags
	for i, c := range app.Configs {
		vfAssert(!preStarted[i] || c.Started, "started-is-sticky")
		vfAssert(!preUpdated[i] || c.ValidatorsUpdated, "validators-updated-is-sticky")
		{
			// the check-in quorum of THIS configuration decides, exactly: its own threshold, but at
			// least n - ceil(n/3) + 1 of its own keypers
			n := uint64(len(c.Keypers))
			req := n - (n+2)/3 + 1
			if c.Threshold > req {
				req = c.Threshold
			}
			if n == 0 {
				req = 0
			}
			want := preUpdated[i] || (c.Started && vfCheckedIn(app, c) >= req)
			vfAssert(c.ValidatorsUpdated == want, "validator-transition-happens-exactly-when-the-configuration's-own-check-in-quorum-is-met")
		}
		if c.ValidatorsUpdated && !preUpdated[i] {
			vfReach("transition")
			n := uint64(len(c.Keypers))
			in := vfCheckedIn(app, c)
			vfAssert(c.Started, "transition-only-for-started-config")
			vfAssert(in >= c.Threshold, "transition-needs-threshold-checked-in")
			vfAssert(3*in > 2*n, "checked-in-power-exceeds-two-thirds")
		}
		if c.Started && !preStarted[i] {
			vfReach("config-started")
			j := i - 1
			if j < 0 {
				j = 0
			}
			var votes uint64
			for _, k := range app.Configs[j].Keypers {
				if b, ok := app.BlocksSeen[k]; ok && b >= c.ActivationBlockNumber {
					votes++
				}
			}
			vfAssert(votes >= app.Configs[j].Threshold, "start-needs-block-seen-quorum-of-preceding-config")
		}
	}
}

// C11 (start of a configuration): with two or more configurations of different keyper sets, a
// configuration becomes started in EndBlock exactly when at least the preceding configuration's
// threshold of the *preceding* configuration's keypers have reported its activation block.
func H_C11_start_quorum() {
	b := vfBounds()
	b.noFork, b.noCheckTx = true, true
	app := vfApp(b)
	nc := len(app.Configs)
	preStarted := make([]bool, nc)
	for i, c := range app.Configs {
		preStarted[i] = c.Started
	}
	_ = app.EndBlock(abcitypes.RequestEndBlock{Height: vfI64("height")})
	for i, c := range app.Configs {
		j := i - 1
		if j < 0 {
			j = 0
		}
		var votes uint64
		for _, k := range app.Configs[j].Keypers {
			if bs, ok := app.BlocksSeen[k]; ok && bs >= c.ActivationBlockNumber {
				votes++
			}
		}
		want := preStarted[i] || votes >= app.Configs[j].Threshold
		vfAssert(c.Started == want, "started-iff-block-seen-quorum-of-the-preceding-configurations-keypers")
		if c.Started && !preStarted[i] {
			vfReach("config-started")
		}
		if !c.Started {
			vfReach("not-started")
		}
	}
}

// vfFixedAddr / vfFixedKey: pairwise distinct concrete keys. Which keyper is which does not matter
// to EndBlock; what matters (who has checked in, who has seen which block, thresholds, flags,
// activation blocks) stays symbolic. Concrete keys keep the map encodings small enough for a
// second configuration with four keypers (the smallest size at which a threshold can exceed the
// two-thirds bound and therefore matters).
func vfFixedAddr(i int) common.Address {
	var a common.Address
	a[19] = byte(i + 1)
	return a
}

func vfFixedKey(i int) ValidatorPubkey {
	b := make([]byte, 32)
	b[0] = byte(i + 1)
	return ValidatorPubkey{Ed25519pubkey: string(b)}
}

func H_C12_endblock_two_configs() {
	app := NewShutterApp()
	// configuration 0 (one or two keypers) is in force; configuration 1 has keypers1 keypers
	n0, n1 := vfParam("keypers0", 1), vfParam("keypers1", 4)
	c0 := &BatchConfig{KeyperConfigIndex: vfU64("cfg0.index"), ActivationBlockNumber: vfU64("cfg0.activation"), Threshold: vfU64("cfg0.threshold"), Started: true, ValidatorsUpdated: true}
	c1 := &BatchConfig{KeyperConfigIndex: vfU64("cfg1.index"), ActivationBlockNumber: vfU64("cfg1.activation"), Threshold: vfU64("cfg1.threshold"), Started: vfBool("cfg1.started")}
	c1.ValidatorsUpdated = c1.Started && vfBool("cfg1.updated")
	for i := 0; i < n0; i++ {
		c0.Keypers = append(c0.Keypers, vfFixedAddr(i))
	}
	for i := 0; i < n1; i++ {
		c1.Keypers = append(c1.Keypers, vfFixedAddr(10+i))
	}
	vfAssume(c0.Threshold >= 1 && c0.Threshold <= uint64(n0) && c1.Threshold >= 1 && c1.Threshold <= uint64(n1))
	vfAssume(c1.KeyperConfigIndex > c0.KeyperConfigIndex && c1.ActivationBlockNumber >= c0.ActivationBlockNumber)
	app.Configs = []*BatchConfig{c0, c1}
	for i, k := range c0.Keypers {
		if vfBool("cfg0.checked-in") {
			app.Identities[k] = vfFixedKey(i)
		}
		if vfBool("cfg0.block-seen") {
			app.BlocksSeen[k] = vfU64("cfg0.block")
		}
	}
	for i, k := range c1.Keypers {
		if vfBool("cfg1.checked-in") {
			app.Identities[k] = vfFixedKey(10 + i)
		}
	}
	// the validator set held so far: that of the newest configuration already in force, if any
	app.Validators = make(Powermap)
	if c1.ValidatorsUpdated {
		app.Validators = app.makePowermap(c1.Keypers)
	} else if c0.ValidatorsUpdated {
		app.Validators = app.makePowermap(c0.Keypers)
	} else {
		app.Validators[vfFixedKey(30)] = 10
	}
	pre := []BatchConfig{*c0, *c1}
	prev := make(Powermap)
	for k, p := range app.Validators {
		prev[k] = p
	}
	resp := app.EndBlock(abcitypes.RequestEndBlock{Height: vfI64("height")})

	newest := -1
	for i := 1; i >= 0; i-- {
		if app.Configs[i].Started && app.Configs[i].ValidatorsUpdated {
			newest = i
			break
		}
	}
	if newest >= 0 {
		vfAssert(vfDeepEq(app.Validators, vfIntended(app, app.Configs[newest])), "validators-are-the-intended-set-of-the-newest-active-configuration")
		if newest == 1 {
			vfReach("second-configuration-in-force")
		}
	} else {
		vfAssert(vfDeepEq(app.Validators, prev), "validators-unchanged-without-active-config")
	}
	vfApplyUpdates(prev, resp.ValidatorUpdates)
	vfAssert(vfDeepEq(prev, app.Validators), "updates-lead-to-held-set")
	for i, c := range app.Configs {
		n := uint64(len(c.Keypers))
		req := n - (n+2)/3 + 1
		if c.Threshold > req {
			req = c.Threshold
		}
		in := vfCheckedIn(app, c)
		var votes uint64
		for _, k := range c0.Keypers { // the preceding configuration of both is configuration 0
			if b, ok := app.BlocksSeen[k]; ok && b >= c.ActivationBlockNumber {
				votes++
			}
		}
		wantStarted := pre[i].Started || votes >= c0.Threshold
		vfAssert(c.Started == wantStarted, "configuration-starts-exactly-with-the-block-seen-quorum-of-the-preceding-configuration")
		wantUpdated := pre[i].ValidatorsUpdated || (c.Started && in >= req)
		vfAssert(c.ValidatorsUpdated == wantUpdated, "validator-transition-happens-exactly-when-the-configuration's-own-check-in-quorum-is-met")
		if c.ValidatorsUpdated && !pre[i].ValidatorsUpdated {
			vfReach("transition")
			vfAssert(3*in > 2*n, "checked-in-power-exceeds-two-thirds")
		}
	}
}

package app

import (
	abcitypes "github.com/tendermint/tendermint/abci/types"

	"github.com/shutter-network/rolling-shutter/rolling-shutter/keyper/shutterevents/shtxresp"
)

// C10: no transaction can crash shuttermint; refused transactions have no effect.

func vfIsKeyperAnywhere(app *ShutterApp) bool {
	for _, c := range app.Configs {
		for _, k := range c.Keypers {
			if k == vfTxSigner {
				return true
			}
		}
	}
	return false
}

func H_C10_delivertx() {
	kind := vfParam("kind", -1)
	b := vfPartsFor(vfBounds(), kind)
	b.noCheckTx = true // DeliverTx does not read the mempool state
	app := vfApp(b)
	pre := vfDeepCopy(app)
	tx := vfTxKind(vfParam("list", 2), kind)
	resp := app.DeliverTx(abcitypes.RequestDeliverTx{Tx: tx})
	// (every index / nil / type assertion / map write on the way is a proof obligation)

	undecodable := vfDecodeFails || len(vfTxRaw) < 65 || vfSigFails || vfProtoFails
	wrongChain := !undecodable && string(vfTxMsg.ChainId) != pre.ChainID
	replayed := !undecodable && !wrongChain && !pre.NonceTracker.Check(vfTxSigner, vfTxMsg.RandomNonce)
	if undecodable || wrongChain || replayed {
		vfReach("refused-before-dispatch")
		vfAssert(resp.Code != shtxresp.Ok, "malformed-foreign-chain-or-replayed-tx-gets-nonzero-code")
		vfAssert(len(resp.Events) == 0, "refused-tx-emits-no-events")
		vfAssert(vfDeepEq(app, pre), "refused-tx-changes-nothing")
		return
	}
	vfReach("dispatched")
	// the nonce is consumed
	vfAssert(!app.NonceTracker.Check(vfTxSigner, vfTxMsg.RandomNonce), "nonce-consumed")
	if resp.Code == shtxresp.Error {
		vfAssert(len(resp.Events) == 0, "error-response-emits-no-events")
		app.NonceTracker, pre.NonceTracker = nil, nil
		vfAssert(vfDeepEq(app, pre), "error-response-changes-only-the-nonce")
		return
	}
	if !vfIsKeyperAnywhere(pre) {
		// a sender outside every accepted keyper set: no events, and nothing observable changes
		// (its own nonce entry and block-seen entry are never read for anyone else)
		vfAssert(len(resp.Events) == 0, "outsider-tx-emits-no-events")
		app.NonceTracker, pre.NonceTracker = nil, nil
		delete(app.BlocksSeen, vfTxSigner)
		delete(pre.BlocksSeen, vfTxSigner)
		vfAssert(vfDeepEq(app, pre), "outsider-tx-has-no-observable-effect")
	}
}

func H_C10_checktx() {
	b := vfBounds()
	app := vfApp(b)
	if vfParam("commit_first", 0) == 1 {
		// the mempool state is reset at every commit: what it forgets is the per-block
		// bookkeeping, not who is allowed to send
		_ = app.Commit()
	}
	pre := vfDeepCopy(app)
	tx := vfTx(vfParam("list", 1))
	resp := app.CheckTx(abcitypes.RequestCheckTx{Tx: tx})
	undecodable := vfDecodeFails || len(vfTxRaw) < 65 || vfSigFails || vfProtoFails
	wrongChain := !undecodable && string(vfTxMsg.ChainId) != pre.ChainID
	replayed := !undecodable && !wrongChain && !pre.NonceTracker.Check(vfTxSigner, vfTxMsg.RandomNonce)
	if undecodable || wrongChain || replayed {
		vfAssert(resp.Code != 0, "malformed-foreign-chain-or-replayed-tx-refused-by-mempool")
		vfReach("refused")
	}
	if !undecodable && !vfIsKeyperAnywhere(pre) {
		vfAssert(resp.Code != 0, "outsider-refused-by-mempool")
		vfReach("outsider")
	}
	if resp.Code == 0 {
		vfReach("admitted")
	}
	// the mempool check never touches consensus state
	app.CheckTxState, pre.CheckTxState = nil, nil
	vfAssert(vfDeepEq(app, pre), "checktx-leaves-consensus-state-alone")
}

package app

import (
	abcitypes "github.com/tendermint/tendermint/abci/types"

	"github.com/shutter-network/rolling-shutter/rolling-shutter/keyper/shutterevents/shtxresp"
)

// C08 (d), shuttermint side: a keyper that crashed between an accepted broadcast and the deletion of
// the outbox row sends the same message again (with a fresh nonce). The second delivery, from the
// successor state, must be answered with a code the sender classifies as delivered (Ok or Seen;
// see H_C08_sender_classification), otherwise the FIFO outbox can never get past this message.
func H_C08_redelivery() {
	kind := vfParam("kind", 0)
	b := vfPartsFor(vfBounds(), kind)
	b.noCheckTx = true
	app := vfApp(b)
	tx := vfTxKind(vfParam("list", 1), kind)
	vfDecodeFails, vfSigFails, vfProtoFails = false, false, false
	vfAssume(len(vfTxRaw) >= 65)
	vfAssume(string(vfTxMsg.ChainId) == app.ChainID)
	vfAssume(app.NonceTracker.Check(vfTxSigner, vfTxMsg.RandomNonce))
	r1 := app.DeliverTx(abcitypes.RequestDeliverTx{Tx: tx})
	vfAssume(r1.Code == shtxresp.Ok || r1.Code == shtxresp.Seen) // the first broadcast was accepted
	vfReach("first-delivery-accepted")
	// re-send: same message, fresh random nonce
	n2 := vfU64("tx.nonce2")
	vfAssume(app.NonceTracker.Check(vfTxSigner, n2))
	vfTxMsg.RandomNonce = n2
	r2 := app.DeliverTx(abcitypes.RequestDeliverTx{Tx: tx})
	vfAssert(r2.Code == shtxresp.Ok || r2.Code == shtxresp.Seen, "redelivered-message-is-classified-as-delivered")
}

package p2p

import (
	"context"

	pubsub "github.com/libp2p/go-libp2p-pubsub"
	pubsubpb "github.com/libp2p/go-libp2p-pubsub/pb"
	"github.com/libp2p/go-libp2p/core/peer"

	"github.com/shutter-network/rolling-shutter/rolling-shutter/p2pmsg"
)

// C05 (dispatch): the validator closure that P2PMessaging registers per topic hands the typed
// validator of a handler only messages of the prototype's type, whatever well-formed envelope is
// delivered on the topic. The handlers assert the message type without checking (msg.(*T)), so a
// message of another type reaching them would panic the validation goroutine. Envelope decoding
// (protobuf / anypb) is a stub that returns an arbitrary message of any of the known types.

var vfP2P struct {
	decodeFails bool
	kind        int
	trace       bool
}

func vfMessageOfKind(k int) p2pmsg.Message {
	switch k {
	case 0:
		return &p2pmsg.DecryptionTrigger{InstanceId: vfU64("msg.instance")}
	case 1:
		return &p2pmsg.DecryptionKeyShares{InstanceId: vfU64("msg.instance")}
	case 2:
		return &p2pmsg.DecryptionKeys{InstanceId: vfU64("msg.instance")}
	case 3:
		return &p2pmsg.EonPublicKey{InstanceId: vfU64("msg.instance")}
	}
	return &p2pmsg.Commitment{}
}

//verif:stub github.com/shutter-network/rolling-shutter/rolling-shutter/p2p.UnmarshalPubsubMessage
func vfStubUnmarshalPubsub(msg *pubsub.Message) (p2pmsg.Message, *p2pmsg.TraceContext, error) {
	if vfP2P.decodeFails {
		return nil, nil, vfErr("decode")
	}
	var tc *p2pmsg.TraceContext
	if vfP2P.trace {
		tc = &p2pmsg.TraceContext{}
	}
	return vfMessageOfKind(vfP2P.kind), tc, nil
}

// generated protobuf getter of the libp2p envelope
//
//verif:stub (*github.com/libp2p/go-libp2p-pubsub/pb.Message).GetTopic
func vfStubGetTopic(m *pubsubpb.Message) string {
	if m != nil && m.Topic != nil {
		return *m.Topic
	}
	return ""
}

func H_C05_p2p_validator_dispatch() {
	proto := vfLen("prototype", 4)
	vfP2P.kind = vfLen("delivered-kind", 4)
	vfP2P.decodeFails = vfBool("decode-fails")
	vfP2P.trace = vfBool("has-trace-context")
	m := &P2PMessaging{gossipTopicNames: map[string]struct{}{}, handlerRegistry: HandlerRegistry{}, validatorRegistry: ValidatorRegistry{}}
	called := false
	typed := func(ctx context.Context, msg p2pmsg.Message) (pubsub.ValidationResult, error) {
		called = true
		// what every handler does first: an unchecked assertion to its own message type
		switch proto {
		case 0:
			_ = msg.(*p2pmsg.DecryptionTrigger)
		case 1:
			_ = msg.(*p2pmsg.DecryptionKeyShares)
		case 2:
			_ = msg.(*p2pmsg.DecryptionKeys)
		case 3:
			_ = msg.(*p2pmsg.EonPublicKey)
		default:
			_ = msg.(*p2pmsg.Commitment)
		}
		return pubsub.ValidationAccept, nil
	}
	p := vfMessageOfKind(proto)
	m.AddValidator(typed, p)
	topic := p.Topic()
	fns := m.validatorRegistry[topic]
	vfAssert(len(fns) == 1, "one-validator-registered-for-the-topic")
	delivered := topic
	if vfBool("other-topic") {
		delivered = vfMessageOfKind((proto + 1) % 5).Topic()
	}
	res := fns[0](context.Background(), peer.ID("sender"), &pubsub.Message{Message: &pubsubpb.Message{Topic: &delivered}})
	if called {
		vfAssert(vfP2P.kind == proto && !vfP2P.decodeFails && delivered == topic, "typed-validator-sees-only-its-own-message-type-on-its-own-topic")
		vfAssert(res == pubsub.ValidationAccept, "verdict-of-the-typed-validator-is-returned")
		vfReach("dispatched")
	} else {
		vfAssert(res == pubsub.ValidationReject, "undeliverable-message-is-rejected")
		vfReach("rejected")
	}
}

// C04/C05 (combination): when several handlers validate one topic (a flavour's own handler plus
// the core handler), every registered validator is consulted and a reject from any of them wins,
// then an ignore, and only unanimous acceptance accepts.
// vfCtx: a context that reports "done" at an arbitrary moment
type vfCtx struct{ context.Context }

func (c vfCtx) Err() error {
	if vfBool("validation-context-is-done") {
		return context.Canceled
	}
	return nil
}

func H_C04_combined_validator() {
	vfP2P.kind, vfP2P.decodeFails, vfP2P.trace = 1, false, false
	m := &P2PMessaging{gossipTopicNames: map[string]struct{}{}, handlerRegistry: HandlerRegistry{}, validatorRegistry: ValidatorRegistry{}}
	n := 1 + vfLen("extra-validators", vfParam("validators", 3)-1)
	verdicts := []pubsub.ValidationResult{}
	calls := make([]int, n)
	p := vfMessageOfKind(1)
	for i := 0; i < n; i++ {
		i := i
		v := []pubsub.ValidationResult{pubsub.ValidationAccept, pubsub.ValidationReject, pubsub.ValidationIgnore}[vfLen("verdict", 2)]
		verdicts = append(verdicts, v)
		m.AddValidator(func(ctx context.Context, msg p2pmsg.Message) (pubsub.ValidationResult, error) {
			calls[i]++
			return v, nil
		}, p)
	}
	topic := p.Topic()
	vfAssert(len(m.validatorRegistry[topic]) == n, "every-validator-of-the-topic-is-registered")
	combined := m.validatorRegistry.GetCombinedValidator(topic)
	// the validation context may be done at any moment (pubsub's validation timeout, shutdown):
	// that must never turn into an acceptance of a message nobody looked at
	res := combined(vfCtx{context.Background()}, peer.ID("sender"), &pubsub.Message{Message: &pubsubpb.Message{Topic: &topic}})
	anyReject, anyIgnore := false, false
	for _, v := range verdicts {
		if v == pubsub.ValidationReject {
			anyReject = true
		}
		if v == pubsub.ValidationIgnore {
			anyIgnore = true
		}
	}
	switch {
	case anyReject:
		vfAssert(res == pubsub.ValidationReject, "a-reject-from-any-validator-wins")
		vfReach("rejected")
	case anyIgnore:
		vfAssert(res == pubsub.ValidationIgnore, "an-ignore-wins-over-acceptance")
		vfReach("ignored")
	default:
		vfAssert(res == pubsub.ValidationAccept, "unanimous-acceptance-accepts")
		for i := range calls {
			vfAssert(calls[i] == 1, "every-validator-is-consulted-once")
		}
		vfReach("accepted")
	}
}

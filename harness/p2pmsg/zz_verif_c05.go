package p2pmsg

import (
	"google.golang.org/protobuf/proto"
	"google.golang.org/protobuf/reflect/protoreflect"
	anypb "google.golang.org/protobuf/types/known/anypb"
)

// C05 (envelope): every byte string delivered on a topic first goes through p2pmsg.Unmarshal, in
// the topic validator and again in the handler dispatch. The protobuf decoder is a stub that
// returns an arbitrary well-typed envelope (any version string, message present or not, trace
// present or not) or an error; everything Unmarshal itself does with the envelope runs for real:
// it must never panic, and it yields a message only from an envelope of exactly the supported
// version whose payload is one of the protocol's message types.

var vfEnv struct {
	decodeFails bool
	version     string
	hasMessage  bool
	hasTrace    bool
	anyKind     int // 0: payload does not decode, 1: a protocol message, 2: some other protobuf message
}

//verif:stub google.golang.org/protobuf/proto.Unmarshal
func vfStubProtoUnmarshal(b []byte, m proto.Message) error {
	if vfEnv.decodeFails {
		return vfErr("proto")
	}
	e, ok := m.(*Envelope)
	vfAssert(ok, "the-envelope-type-is-decoded")
	if !ok {
		return vfErr("proto")
	}
	e.Version = vfEnv.version
	if vfEnv.hasMessage {
		e.Message = &anypb.Any{}
	}
	if vfEnv.hasTrace {
		e.Trace = &TraceContext{}
	}
	return nil
}

//verif:stub (*google.golang.org/protobuf/types/known/anypb.Any).UnmarshalNew
func vfStubUnmarshalNew(a *anypb.Any) (proto.Message, error) {
	// the library returns an error for a nil or empty Any
	if a == nil || vfEnv.anyKind == 0 {
		return nil, vfErr("any")
	}
	if vfEnv.anyKind == 1 {
		return &DecryptionKeyShares{InstanceId: vfU64("msg.instance")}, nil
	}
	return &anypb.Any{}, nil
}

//verif:stub google.golang.org/protobuf/proto.MessageName
func vfStubMessageName(m proto.Message) protoreflect.FullName { return "other" }

func H_C05_envelope_unmarshal() {
	vfEnv.decodeFails = vfBool("envelope-does-not-decode")
	vfEnv.version = string(vfBytes("envelope.version", vfParam("version", 6)))
	vfEnv.hasMessage = vfBool("envelope.has-message")
	vfEnv.hasTrace = vfBool("envelope.has-trace")
	vfEnv.anyKind = vfLen("payload-kind", 2)
	msg, _, err := Unmarshal(vfBytes("data", 4))
	if err != nil {
		vfAssert(msg == nil, "no-message-with-an-error")
		vfReach("refused")
		return
	}
	vfAssert(msg != nil, "a-message-without-an-error")
	vfAssert(!vfEnv.decodeFails && vfEnv.version == EnvelopeVersion && vfEnv.hasMessage && vfEnv.anyKind == 1, "only-envelopes-of-the-supported-version-with-a-protocol-message-are-accepted")
	vfReach("decoded")
}

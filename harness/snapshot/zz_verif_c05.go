package snapshot

import (
	"context"

	"github.com/ethereum/go-ethereum/common"
	"github.com/jackc/pgx/v4"
	pubsub "github.com/libp2p/go-libp2p-pubsub"

	chainobscolldb "github.com/shutter-network/rolling-shutter/rolling-shutter/chainobserver/db/collator"
	"github.com/shutter-network/rolling-shutter/rolling-shutter/keyper/epochkghandler"
	"github.com/shutter-network/rolling-shutter/rolling-shutter/medley/broker"
	"github.com/shutter-network/rolling-shutter/rolling-shutter/p2pmsg"
	"github.com/shutter-network/rolling-shutter/rolling-shutter/shdb"
)

// C05 (snapshot keyper): ValidateMessage, then HandleMessage, of the decryption trigger handler on
// an arbitrary decoded trigger against arbitrary database answers: no panic, bounded work.

//verif:stub (*github.com/shutter-network/rolling-shutter/rolling-shutter/chainobserver/db/collator.Queries).GetChainCollator sql=getChainCollator
func vfStubGetChainCollator(q *chainobscolldb.Queries, ctx context.Context, blk int64) (chainobscolldb.ChainCollator, error) {
	vfAssert(blk >= 0, "block-number-cast-is-safe")
	switch vfLen("db.collator-kind", 3) {
	case 0:
		return chainobscolldb.ChainCollator{}, pgx.ErrNoRows
	case 1:
		return chainobscolldb.ChainCollator{}, vfErr("db")
	case 2:
		return chainobscolldb.ChainCollator{ActivationBlockNumber: vfI64("db.activation"), Collator: vfAtom("db.malformed-collator")}, nil
	}
	return chainobscolldb.ChainCollator{ActivationBlockNumber: vfI64("db.activation"), Collator: shdb.EncodeAddress(vfAny[common.Address]("db.collator"))}, nil
}

// SHA3 over the binary.Write encoding of the fields is not encoded: total function of the fields.
//
//verif:stub (*github.com/shutter-network/rolling-shutter/rolling-shutter/p2pmsg.DecryptionTrigger).Hash
func vfStubTriggerHash(t *p2pmsg.DecryptionTrigger) []byte {
	return vfUFBytesN("trigger-hash", 32, t.InstanceId, t.IdentityPreimage, t.TransactionsHash)
}

func H_C05_snapshot_trigger() {
	msg := &p2pmsg.DecryptionTrigger{InstanceId: vfU64("instance"), BlockNumber: vfU64("blocknumber"),
		IdentityPreimage: vfBytes("identity", 3), TransactionsHash: vfBytes("txhash", 3), Signature: vfBytes("signature", 3)}
	if vfBool("nil-fields") {
		msg.IdentityPreimage, msg.TransactionsHash, msg.Signature = nil, nil, nil
	}
	ch := make(chan *broker.Event[*epochkghandler.DecryptionTrigger], 1)
	h := NewDecryptionTriggerHandler(Config{InstanceID: vfU64("own-instance")}, nil, ch)
	vfAssert(msg.Validate() == nil, "envelope-validation-total")
	_ = msg.LogInfo()
	res, _ := h.ValidateMessage(context.Background(), msg)
	if res != pubsub.ValidationAccept {
		vfReach("rejected")
		return
	}
	vfReach("accepted")
	out, err := h.HandleMessage(context.Background(), msg)
	vfAssert(err == nil && len(out) == 0, "accepted-trigger-is-forwarded")
	vfAssert(vfChanLen(ch) == 1, "exactly-one-trigger-event")
	ev := <-ch
	vfAssert(len(ev.Value.IdentityPreimages) == 1 && ev.Value.BlockNumber == msg.BlockNumber, "trigger-carries-the-message-fields")
}

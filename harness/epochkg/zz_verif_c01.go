package epochkg

import (
	"github.com/shutter-network/shutter/shlib/puredkg"
	"github.com/shutter-network/shutter/shlib/shcrypto"

	"github.com/shutter-network/rolling-shutter/rolling-shutter/medley/identitypreimage"
)

// C01: a key for an identity is derived exactly when t distinct valid shares for it are held;
// interpolation is called once per identity on exactly those t shares; invalid, duplicate and
// late shares are inert.

var vfC01 struct {
	curIdentity identitypreimage.IdentityPreimage
	res         *puredkg.Result
	combines    int
	combineOK   bool
}

// The library offers the interpolation in two steps as well (coefficients for an ORDERED list of
// indices, then the combination of shares in that order): the same recorder sees through it, so a
// coefficient object that is reused for shares in another order is caught.
type vfLagrangeRec struct {
	lc      *shcrypto.LagrangeCoeffs
	indices []int
}

var vfLagrange []vfLagrangeRec

//verif:stub github.com/shutter-network/shutter/shlib/shcrypto.NewLagrangeCoeffs
func vfStubNewLagrange(indices []int) *shcrypto.LagrangeCoeffs {
	lc := &shcrypto.LagrangeCoeffs{}
	vfLagrange = append(vfLagrange, vfLagrangeRec{lc: lc, indices: append([]int(nil), indices...)})
	return lc
}

//verif:stub (*github.com/shutter-network/shutter/shlib/shcrypto.LagrangeCoeffs).ComputeEpochSecretKey
func vfStubLagrangeCombine(lc *shcrypto.LagrangeCoeffs, shares []*shcrypto.EpochSecretKeyShare) (*shcrypto.EpochSecretKey, error) {
	for _, r := range vfLagrange {
		if r.lc == lc {
			return vfStubCombine(r.indices, shares, uint64(len(r.indices)))
		}
	}
	vfAssert(false, "coefficients-come-from-NewLagrangeCoeffs")
	return nil, vfErr("combine")
}

//verif:stub github.com/shutter-network/shutter/shlib/shcrypto.ComputeEpochSecretKey
func vfStubCombine(indices []int, shares []*shcrypto.EpochSecretKeyShare, threshold uint64) (*shcrypto.EpochSecretKey, error) {
	vfC01.combines++
	vfAssert(len(indices) == len(shares), "interpolation-gets-one-index-per-share")
	vfAssert(uint64(len(indices)) == vfC01.res.Threshold && threshold == vfC01.res.Threshold, "interpolation-on-exactly-threshold-shares")
	id := vfUFU64("epoch-id", vfC01.curIdentity.Bytes())
	acc := uint64(0)
	for i := range indices {
		vfAssert(indices[i] >= 0 && uint64(indices[i]) < vfC01.res.NumKeypers, "interpolation-index-in-range")
		for j := 0; j < i; j++ {
			vfAssert(indices[i] != indices[j], "interpolation-indices-distinct")
		}
		if i < len(shares) && indices[i] >= 0 && uint64(indices[i]) < vfC01.res.NumKeypers {
			vfAssert(vfUFBool("verify-share", vfTagOf(shares[i]), vfTagOf(vfC01.res.PublicKeyShares[indices[i]]), id),
				"interpolated-share-verified-for-this-identity-and-sender")
			acc = vfUFU64("lagrange-step", acc, uint64(indices[i]), vfTagOf(shares[i]))
		}
	}
	if !vfC01.combineOK {
		return nil, vfErr("combine")
	}
	return vfTagged[shcrypto.EpochSecretKey](acc), nil
}

func vfResult(n int) *puredkg.Result {
	r := &puredkg.Result{Eon: vfU64("res.eon"), NumKeypers: uint64(n), Threshold: vfU64("res.threshold"), Keyper: vfU64("res.keyper")}
	r.PublicKey = vfTagged[shcrypto.EonPublicKey](vfU64("res.eonpk"))
	for i := 0; i < n; i++ {
		r.PublicKeyShares = append(r.PublicKeyShares, vfTagged[shcrypto.EonPublicKeyShare](vfU64("res.pkshare")))
	}
	return r
}

func H_C01_share_sequence() {
	n := vfParam("keypers", 3)
	L := vfParam("arrivals", 4)
	res := vfResult(n)
	vfAssume(res.Threshold >= 1 && res.Threshold <= uint64(n))
	vfC01.res, vfC01.combines, vfC01.combineOK = res, 0, true
	kg := NewEpochKG(res)
	ids := []identitypreimage.IdentityPreimage{vfBytesN("identity", 1), vfBytesN("identity", 1)}
	vfAssume(ids[0][0] != ids[1][0])
	seen := [][]uint64{nil, nil} // ghost: distinct senders whose share for identity j verified, while no key yet
	derived := []bool{false, false}
	for step := 0; step < L; step++ {
		j := 0
		if vfBool("arrival.other-identity") {
			j = 1
		}
		sender := vfU64("arrival.sender")
		vfAssume(sender < uint64(n)) // "the claimed sender index exists" is the validator's job (C04)
		share := vfTagged[shcrypto.EpochSecretKeyShare](vfU64("arrival.share"))
		vfC01.curIdentity = ids[j]
		valid := vfUFBool("verify-share", vfTagOf(share), vfTagOf(res.PublicKeyShares[sender]), vfUFU64("epoch-id", ids[j].Bytes()))
		dup := false
		for _, s := range seen[j] {
			if s == sender {
				dup = true
			}
		}
		inert := derived[j] || !valid || dup
		before := vfDeepCopy(kg)
		combinesBefore := vfC01.combines
		_ = kg.HandleEpochSecretKeyShare(&EpochSecretKeyShare{Eon: res.Eon, IdentityPreimage: ids[j], Sender: sender, Share: share})
		if inert {
			vfAssert(vfDeepEq(before.SecretShares, kg.SecretShares) && vfDeepEq(before.SecretKeys, kg.SecretKeys), "invalid-duplicate-or-late-share-is-inert")
			vfAssert(vfC01.combines == combinesBefore, "no-interpolation-on-inert-share")
			vfReach("inert-arrival")
		} else {
			seen[j] = append(seen[j], sender)
			if uint64(len(seen[j])) == res.Threshold {
				derived[j] = true
				vfAssert(vfC01.combines == combinesBefore+1, "interpolation-exactly-when-threshold-reached")
				vfReach("key-derived")
			} else {
				vfAssert(vfC01.combines == combinesBefore, "no-interpolation-below-threshold")
				vfReach("share-counted")
			}
		}
		for q := 0; q < 2; q++ {
			_, has := kg.SecretKeys[ids[q].Hex()]
			vfAssert(has == derived[q], "key-present-iff-threshold-of-distinct-valid-shares")
			if !derived[q] {
				vfAssert(len(kg.SecretShares[ids[q].Hex()]) == len(seen[q]), "pending-shares-are-the-counted-ones")
			}
		}
	}
}

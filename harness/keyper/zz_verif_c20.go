package keyper

import (
	"context"
	"crypto/ecdsa"

	"github.com/ethereum/go-ethereum/common"
	"github.com/jackc/pgx/v4"
	"github.com/jackc/pgx/v4/pgxpool"

	"github.com/shutter-network/rolling-shutter/rolling-shutter/keyper/database"
	"github.com/shutter-network/rolling-shutter/rolling-shutter/keyper/kprconfig"
	"github.com/shutter-network/rolling-shutter/rolling-shutter/medley/configuration"
	"github.com/shutter-network/rolling-shutter/rolling-shutter/medley/encodeable/keys"
	"github.com/shutter-network/rolling-shutter/rolling-shutter/medley/retry"
	"github.com/shutter-network/rolling-shutter/rolling-shutter/medley/service"
	"github.com/shutter-network/rolling-shutter/rolling-shutter/p2p"
	"github.com/shutter-network/rolling-shutter/rolling-shutter/p2pmsg"
	"github.com/shutter-network/rolling-shutter/rolling-shutter/shdb"
)

// C20: every pending eon key returned (and already deleted) by the query is handed to the
// publication mechanism exactly once with its own fields, in row order.

var (
	vfOwn      common.Address
	vfRows     []database.GetAndDeleteEonPublicKeysRow
	vfQueryErr bool
	vfPublished []EonPublicKey
	vfInstance uint64
)

//verif:stub (*github.com/shutter-network/rolling-shutter/rolling-shutter/keyper/database.Queries).GetAndDeleteEonPublicKeys sql=getAndDeleteEonPublicKeys
func vfStubGetAndDelete(q *database.Queries, ctx context.Context) ([]database.GetAndDeleteEonPublicKeysRow, error) {
	if vfQueryErr {
		return nil, vfErr("db")
	}
	if vfTwoTicks {
		// the query deletes what it returns (undone only if an enclosing transaction fails)
		out := vfTable
		vfTable = nil
		return out, nil
	}
	return vfRows, nil
}

var (
	vfTwoTicks bool
	vfTable    []database.GetAndDeleteEonPublicKeysRow // pending rows of eon_public_keys
	vfHanded   []int                                   // per key (by eon): handovers the mechanism accepted
	vfReject   bool
)

// a transaction around the query and the handover: commit on success, roll the table back on error
//
//verif:stub (*github.com/jackc/pgx/v4/pgxpool.Pool).BeginFunc
func vfStubBeginFunc20(p *pgxpool.Pool, ctx context.Context, f func(pgx.Tx) error) error {
	snapshot := append([]database.GetAndDeleteEonPublicKeysRow(nil), vfTable...)
	err := f(nil)
	if err != nil {
		vfTable = snapshot
	}
	return err
}

func vfHandOver(eon uint64) error {
	if vfBool("mechanism-rejects") {
		return vfErr("publication")
	}
	if eon < uint64(len(vfHanded)) {
		vfHanded[eon]++
	}
	return nil
}

type vfMessaging2 struct{ vfMessaging }

func (vfMessaging2) SendMessage(ctx context.Context, m p2pmsg.Message, _ ...retry.Option) error {
	return vfHandOver(m.(*p2pmsg.EonPublicKey).Eon)
}

// Two polling ticks, the publication mechanism may refuse any single handover: a key the
// mechanism has accepted is never handed over again (exactly once), whatever happens to the
// other keys of the same tick.
func H_C20_two_ticks() {
	vfTwoTicks = true
	defer func() { vfTwoTicks = false }()
	vfOwn = vfAny[common.Address]("own")
	vfInstance = vfU64("instance")
	n := vfLen("rows", vfParam("rows", 2))
	vfTable, vfHanded = nil, make([]int, n)
	for i := 0; i < n; i++ {
		ks := []string{shdb.EncodeAddress(vfAny[common.Address]("other")), shdb.EncodeAddress(vfOwn)}
		r := database.GetAndDeleteEonPublicKeysRow{EonPublicKey: vfBytes("eonkey", 4), Eon: int64(i), ActivationBlockNumber: vfI64("activation"), Keypers: ks, KeyperConfigIndex: vfI32("cfgindex")}
		vfAssume(r.ActivationBlockNumber >= 0 && r.KeyperConfigIndex >= 0)
		vfTable = append(vfTable, r)
	}
	vfQueryErr = false
	cfg := &kprconfig.Config{InstanceID: vfInstance, Ethereum: &configuration.EthnodeConfig{PrivateKey: &keys.ECDSAPrivate{}}}
	pkh := &eonPubKeyHandler{config: cfg, messaging: vfMessaging2{}, broadcastEonPubKey: vfBool("broadcast-mode")}
	if !pkh.broadcastEonPubKey {
		pkh.eonPubkeyHandler = func(ctx context.Context, k EonPublicKey) error { return vfHandOver(k.Eon) }
	}
	_ = pkh.queryAndHandleNewEonPubKeys(context.Background())
	_ = pkh.queryAndHandleNewEonPubKeys(context.Background())
	for i := 0; i < n; i++ {
		vfAssert(vfHanded[i] <= 1, "a-key-the-mechanism-accepted-is-not-handed-over-again")
	}
	if n >= 2 {
		vfReach("several-keys")
	}
}

//verif:stub (*github.com/shutter-network/rolling-shutter/rolling-shutter/keyper/kprconfig.Config).GetAddress
func vfStubGetAddress(c *kprconfig.Config) common.Address { return vfOwn }

// the signing step is replaced by a constructor that copies the fields (secp256k1 not modelled)
//
//verif:stub github.com/shutter-network/rolling-shutter/rolling-shutter/p2pmsg.NewSignedEonPublicKey
func vfStubNewSigned(instanceID uint64, pk []byte, activation, cfgIndex, eon uint64, key *ecdsa.PrivateKey) (*p2pmsg.EonPublicKey, error) {
	return &p2pmsg.EonPublicKey{InstanceId: instanceID, PublicKey: pk, ActivationBlock: activation, KeyperConfigIndex: cfgIndex, Eon: eon}, nil
}

type vfMessaging struct{}

func (vfMessaging) Start(ctx context.Context, runner service.Runner) error { return nil }
func (vfMessaging) SendMessage(ctx context.Context, m p2pmsg.Message, _ ...retry.Option) error {
	k := m.(*p2pmsg.EonPublicKey)
	vfAssert(k.InstanceId == vfInstance, "broadcast-carries-own-instance-id")
	vfPublished = append(vfPublished, EonPublicKey{PublicKey: k.PublicKey, ActivationBlock: k.ActivationBlock, KeyperConfigIndex: k.KeyperConfigIndex, Eon: k.Eon})
	return nil // the mechanism accepts
}
func (vfMessaging) AddValidator(valFunc p2p.ValidatorFunc, protos ...p2pmsg.Message) {}
func (vfMessaging) AddMessageHandler(mhs ...p2p.MessageHandler)                      {}

func H_C20_publish_all() {
	vfOwn = vfAny[common.Address]("own")
	vfInstance = vfU64("instance")
	n := vfLen("rows", vfParam("rows", 3))
	vfRows = nil
	for i := 0; i < n; i++ {
		// documented precondition: the keyper belongs to the eon's keyper set; non-negative columns
		ks := []string{shdb.EncodeAddress(vfAny[common.Address]("other")), shdb.EncodeAddress(vfOwn)}
		r := database.GetAndDeleteEonPublicKeysRow{
			EonPublicKey: vfBytes("eonkey", 4), Eon: vfI64("eon"), ActivationBlockNumber: vfI64("activation"),
			Keypers: ks, KeyperConfigIndex: vfI32("cfgindex"),
		}
		vfAssume(r.Eon >= 0 && r.ActivationBlockNumber >= 0 && r.KeyperConfigIndex >= 0)
		vfRows = append(vfRows, r)
	}
	vfQueryErr = false
	vfPublished = nil
	cfg := &kprconfig.Config{InstanceID: vfInstance, Ethereum: &configuration.EthnodeConfig{PrivateKey: &keys.ECDSAPrivate{}}}
	pkh := &eonPubKeyHandler{config: cfg, messaging: vfMessaging{}, broadcastEonPubKey: vfBool("broadcast-mode")}
	if !pkh.broadcastEonPubKey {
		pkh.eonPubkeyHandler = func(ctx context.Context, k EonPublicKey) error {
			vfPublished = append(vfPublished, k)
			return nil // the mechanism accepts
		}
		vfReach("callback-mode")
	} else {
		vfReach("broadcast-mode")
	}
	err := pkh.queryAndHandleNewEonPubKeys(context.Background())
	vfAssert(err == nil, "no-error-when-mechanism-accepts")
	vfAssert(len(vfPublished) == n, "one-publication-per-pending-key")
	for i := 0; i < n && i < len(vfPublished); i++ {
		p, r := vfPublished[i], vfRows[i]
		vfAssert(vfDeepEq(p.PublicKey, r.EonPublicKey), "published-key-bytes")
		vfAssert(p.Eon == uint64(r.Eon), "published-eon")
		vfAssert(p.ActivationBlock == uint64(r.ActivationBlockNumber), "published-activation-block")
		vfAssert(p.KeyperConfigIndex == uint64(r.KeyperConfigIndex), "published-keyper-config-index")
	}
	if n >= 2 {
		vfReach("several-keys-in-one-tick")
	}
}

package kproapi

import (
	"encoding/json"
	"net/http"
	"net/url"

	"github.com/getkin/kin-openapi/openapi3"
)

// C18 (path spelling): with the route templates of the keyper API (literal routes and routes with
// placeholders in the spellings the specification uses: lower case, camel case, digits,
// underscores) and concrete request paths obtained by substituting parameter values, the real
// findOperation (kin-openapi lookup for literal routes, the regular-expression fallback for
// templates) selects the operation of that route, for every method, so that read-only operations
// stay reachable and write operations stay blocked. Regular expressions are evaluated natively on
// these concrete strings; method, write flag and the read-only marks remain symbolic.

// Paths.Find for a request path without braces: the exact template, if there is one.
//
//verif:stub (github.com/getkin/kin-openapi/openapi3.Paths).Find
func vfStubFindExact(p openapi3.Paths, path string) *openapi3.PathItem { return p[path] }

//verif:stub net/http.Error
func vfStubHTTPErrorP(w http.ResponseWriter, msg string, code int) { vfC18P.status = code }

var vfC18P struct {
	status int
	passed bool
}

type vfRecorderP struct{}

func (vfRecorderP) Header() http.Header        { return nil }
func (vfRecorderP) Write(b []byte) (int, error) { return len(b), nil }
func (vfRecorderP) WriteHeader(code int)       {}

func vfOp(readOnly bool) *openapi3.Operation {
	op := &openapi3.Operation{}
	if readOnly {
		op.Extensions = map[string]interface{}{"x-read-only": json.RawMessage("true")}
	}
	return op
}

func H_C18_path_spelling() {
	type route struct {
		template string
		request  string // a request path for this route (parameters substituted)
	}
	routes := []route{
		{"/ping", "/ping"},
		{"/decryptionKey/{eon}/{epochID}", "/decryptionKey/7/0xabcdef"},
		{"/items/{item_id}/parts/{partNo2}", "/items/a-b.c/parts/17"},
	}
	// (the map of routes is ranged over in every order, so the number of routes is kept small)
	foreign := []string{"/pin", "/ping/", "/decryptionKey/7", "/decryptionKey/7/0xab/extra"}
	spec := &openapi3.T{Paths: openapi3.Paths{}}
	getRO, postRO := vfBool("get-marked-read-only"), vfBool("post-marked-read-only")
	items := map[string]*openapi3.PathItem{}
	for _, r := range routes {
		it := &openapi3.PathItem{Get: vfOp(getRO), Post: vfOp(postRO)}
		items[r.template] = it
		spec.Paths[r.template] = it
	}
	enable := vfBool("enable-write-operations")
	next := http.HandlerFunc(func(w http.ResponseWriter, r *http.Request) { vfC18P.passed = true })
	h := ConfigMiddlewareWithSpec(enable, func() (*openapi3.T, error) { return spec, nil })(next)
	methods := []string{"GET", "POST", "DELETE"}
	method := methods[vfLen("method", len(methods)-1)]
	which := vfLen("request", len(routes)+len(foreign)-1)
	vfC18P.status, vfC18P.passed = 0, false
	if which < len(routes) {
		r := routes[which]
		h.ServeHTTP(vfRecorderP{}, &http.Request{Method: method, URL: &url.URL{Path: r.request}})
		marked := (method == "GET" && getRO) || (method == "POST" && postRO)
		declared := method == "GET" || method == "POST"
		vfAssert(findOperation(spec, r.request, "GET") == items[r.template].Get, "request-path-resolves-to-the-operation-of-its-route")
		if declared && (marked || enable) {
			vfAssert(vfC18P.passed, "declared-operation-reachable-when-read-only-or-writes-enabled")
			vfReach("reached")
		} else {
			vfAssert(!vfC18P.passed && (vfC18P.status == 403 || vfC18P.status == 404), "undeclared-or-write-operation-blocked")
			vfReach("blocked")
		}
	} else {
		p := foreign[which-len(routes)]
		h.ServeHTTP(vfRecorderP{}, &http.Request{Method: method, URL: &url.URL{Path: p}})
		vfAssert(!vfC18P.passed && vfC18P.status == 404, "path-of-no-route-is-not-found")
		vfReach("not-found")
	}
}

package kproapi

import (
	"encoding/json"
	"net/http"
	"net/url"
	"regexp"

	"github.com/getkin/kin-openapi/openapi3"
)

// C18 (decision kernel): with write operations disabled, the middleware lets a request through
// only for an operation whose spec entry is marked x-read-only: true. The path matchers
// (kin-openapi Paths.Find, the regexp fallback) are stubbed as arbitrary: whichever path item they
// select, the decision must be right for it.

var vfC18 struct {
	path    string             // URL.Path of the request being served
	matched *openapi3.PathItem // the path item the matchers selected (nil: none)
	items   []*openapi3.PathItem
	status  int
	passed  bool
}

//verif:stub (github.com/getkin/kin-openapi/openapi3.Paths).Find
func vfStubFind(p openapi3.Paths, path string) *openapi3.PathItem {
	vfAssert(path == vfC18.path, "operation-looked-up-by-the-request-path")
	i := vfLen("find.choice", len(vfC18.items))
	if i < len(vfC18.items) {
		vfC18.matched = vfC18.items[i]
		return vfC18.items[i]
	}
	return nil
}

var vfCurrentItem int

//verif:stub regexp.MatchString
func vfStubMatchString(pattern string, s string) (bool, error) {
	vfAssert(s == vfC18.path, "operation-looked-up-by-the-request-path")
	return vfBool("regexp-matches"), nil // arbitrary answer
}

//verif:stub regexp.QuoteMeta
func vfStubQuoteMeta(s string) string { return "quoted" }

//verif:stub strings.ReplaceAll
func vfStubReplaceAll(s, old, new string) string { return "replaced" }

//verif:stub regexp.MustCompile
func vfStubMustCompile(expr string) *regexp.Regexp { return &regexp.Regexp{} }

//verif:stub (*regexp.Regexp).ReplaceAllString
func vfStubReplaceAllString(re *regexp.Regexp, src, repl string) string {
	return "pattern"
}

// Other renderings of the URL differ from the path as soon as there is a query string.
//
//verif:stub (*net/url.URL).RequestURI
func vfStubRequestURI(u *url.URL) string {
	if u.RawQuery == "" && !u.ForceQuery {
		return u.Path
	}
	return vfUFAtom("request-uri", u.Path, u.RawQuery)
}

//verif:stub (*net/url.URL).String
func vfStubURLString(u *url.URL) string {
	return vfUFAtom("url-string", u.Path, u.RawQuery)
}

//verif:stub net/http.Error
func vfStubHTTPError(w http.ResponseWriter, msg string, code int) { vfC18.status = code }

type vfRecorder struct{}

func (vfRecorder) Header() http.Header        { return nil }
func (vfRecorder) Write(b []byte) (int, error) { return len(b), nil }
func (vfRecorder) WriteHeader(code int)       {}

func vfOperation(tag string, kinds int) *openapi3.Operation {
	switch vfLen(tag+".kind", kinds) {
	case 0:
		return nil
	case 1:
		return &openapi3.Operation{} // no extension: not read-only
	case 2:
		op := &openapi3.Operation{}
		op.Extensions = map[string]interface{}{"x-read-only": json.RawMessage("true")}
		return op
	case 3:
		op := &openapi3.Operation{}
		op.Extensions = map[string]interface{}{"x-read-only": json.RawMessage("false")}
		return op
	case 4:
		op := &openapi3.Operation{}
		op.Extensions = map[string]interface{}{"x-read-only": vfBool(tag + ".flag")}
		return op
	case 5:
		op := &openapi3.Operation{}
		op.Extensions = map[string]interface{}{"x-read-only": json.RawMessage(vfBytes(tag+".raw", 6))} // any JSON text
		return op
	}
	op := &openapi3.Operation{}
	op.Extensions = map[string]interface{}{"x-something-else": json.RawMessage("true")}
	return op
}

func vfMarkedReadOnly(op *openapi3.Operation) bool {
	if op == nil {
		return false
	}
	v, ok := op.Extensions["x-read-only"]
	if !ok {
		return false
	}
	if raw, isRaw := v.(json.RawMessage); isRaw {
		return string(raw) == "true"
	}
	if b, isBool := v.(bool); isBool {
		return b
	}
	return false
}

func H_C18_decision_kernel() {
	item := &openapi3.PathItem{Get: vfOperation("get", vfParam("gpkinds", 6)), Post: vfOperation("post", vfParam("gpkinds", 6)), Put: vfOperation("put", vfParam("kinds", 2)), Delete: vfOperation("delete", vfParam("kinds", 2))}
	vfC18.items = []*openapi3.PathItem{item}
	spec := &openapi3.T{Paths: openapi3.Paths{"/some/{param}/path": item}}
	vfC18.matched, vfC18.status, vfC18.passed = nil, 0, false
	enable := vfBool("enable-write-operations")
	specFails := vfBool("spec-unavailable")
	next := http.HandlerFunc(func(w http.ResponseWriter, r *http.Request) { vfC18.passed = true })
	h := ConfigMiddlewareWithSpec(enable, func() (*openapi3.T, error) {
		if specFails {
			return nil, vfErr("spec")
		}
		return spec, nil
	})(next)
	methods := []string{"GET", "POST", "PUT", "DELETE", "PATCH", "HEAD", "OPTIONS"}
	// an arbitrary earlier request served by the same middleware instance: the decision for the
	// observed request must not depend on it
	if vfParam("history", 1) > 0 && vfBool("earlier-request") {
		m0 := methods[vfLen("earlier.method", 1)] // GET or POST
		vfC18.path = vfAtom("earlier.path")
		h.ServeHTTP(vfRecorder{}, &http.Request{Method: m0, URL: &url.URL{Path: vfC18.path}})
		vfC18.matched, vfC18.status, vfC18.passed = nil, 0, false
	}
	method := methods[vfLen("method", len(methods)-1)]
	vfC18.path = vfAtom("path")
	query := ""
	if vfBool("has-query") {
		query = vfAtom("query")
	}
	req := &http.Request{Method: method, URL: &url.URL{Path: vfC18.path, RawQuery: query}}
	h.ServeHTTP(vfRecorder{}, req)

	// which path item did the matchers select? Find's choice, else the regexp fallback
	matched := vfC18.matched
	_ = matched
	if vfC18.passed {
		vfReach("passed")
		vfAssert(!specFails, "no-pass-without-spec")
		var op *openapi3.Operation
		switch method {
		case "GET":
			op = item.Get
		case "POST":
			op = item.Post
		case "PUT":
			op = item.Put
		case "DELETE":
			op = item.Delete
		}
		vfAssert(op != nil, "only-declared-operations-pass")
		vfAssert(enable || vfMarkedReadOnly(op), "with-writes-disabled-only-read-only-operations-pass")
		vfAssert(vfC18.status == 0, "no-error-status-when-passing")
	} else {
		vfReach("blocked")
		vfAssert(vfC18.status == 500 || vfC18.status == 404 || vfC18.status == 403, "blocked-request-gets-an-error-status")
		if vfC18.status == 403 {
			vfReach("forbidden")
			vfAssert(!enable, "forbidden-only-when-writes-are-disabled")
		}
	}
	// read-only operations stay reachable: if the matchers select the item and GET is read-only, GET passes
	if !specFails && vfC18.matched == item && method == "GET" && vfMarkedReadOnly(item.Get) {
		vfAssert(vfC18.passed, "read-only-operation-stays-reachable")
		vfReach("read-only-reachable")
	}
}

package primev

import (
	"context"

	pubsub "github.com/libp2p/go-libp2p-pubsub"

	corekeyperdatabase "github.com/shutter-network/rolling-shutter/rolling-shutter/keyper/database"
	"github.com/shutter-network/rolling-shutter/rolling-shutter/keyper/epochkghandler"
	"github.com/shutter-network/rolling-shutter/rolling-shutter/keyperimpl/primev/database"
	"github.com/shutter-network/rolling-shutter/rolling-shutter/medley/broker"
	"github.com/shutter-network/rolling-shutter/rolling-shutter/p2pmsg"
)

// C05 (primev): validate-then-handle of an arbitrary decoded commitment never panics.

//verif:stub github.com/ethereum/go-ethereum/common.FromHex
func vfStubFromHex(s string) []byte {
	// FromHex never fails; it yields whatever bytes the hex digits denote: an arbitrary byte string
	// whose length is chosen by the sender (up to 70 here, covering both sides of 65)
	return vfBytes("fromhex", 70)
}

//verif:stub encoding/hex.DecodeString
func vfStubHexDecode(s string) ([]byte, error) {
	if vfBool("hex-decode-fails") {
		return nil, vfErr("hex")
	}
	return vfBytes("hex-decoded", 4), nil
}

//verif:stub github.com/ethereum/go-ethereum/crypto.Keccak256
func vfStubKeccak(data ...[]byte) []byte { return vfBytesN("keccak", 32) }

//verif:stub (*github.com/shutter-network/rolling-shutter/rolling-shutter/keyper/database.Queries).GetEonForBlockNumber sql=getEonForBlockNumber
func vfStubGetEonForBlock(q *corekeyperdatabase.Queries, ctx context.Context, b int64) (corekeyperdatabase.Eon, error) {
	if vfBool("db.eon-missing") {
		return corekeyperdatabase.Eon{}, vfErr("norows")
	}
	return corekeyperdatabase.Eon{Eon: vfI64("db.eon")}, nil
}

//verif:stub (*github.com/shutter-network/rolling-shutter/rolling-shutter/keyperimpl/primev/database.Queries).InsertMultipleTransactionsAndUpsertCommitment
func vfStubInsertMultiple(q *database.Queries, ctx context.Context, arg database.InsertMultipleTransactionsAndUpsertCommitmentParams) error {
	// contract of the SQL (unnest of parallel arrays): the arrays have equal lengths
	vfAssert(len(arg.Eons) == len(arg.IdentityPreimages) && len(arg.Eons) == len(arg.BlockNumbers) &&
		len(arg.Eons) == len(arg.TxHashes) && len(arg.Eons) == len(arg.IdentityPrefixes), "parallel-arrays-have-equal-length")
	if vfBool("db.insert-fails") {
		return vfErr("db")
	}
	return nil
}

func H_C05_primev_commitment() {
	n := vfLen("nidentities", vfParam("list", 2))
	m := vfLen("ntxhashes", vfParam("list", 2))
	c := &p2pmsg.Commitment{InstanceId: vfU64("instance"), BlockNumber: vfI64("blocknumber"),
		ProviderAddress: vfAtom("provider"), CommitmentSignature: vfAtom("csig"), CommitmentDigest: vfAtom("cdigest"),
		ReceivedBidDigest: vfAtom("biddigest"), ReceivedBidSignature: string(vfBytes("bidsig", 134))}
	for i := 0; i < n; i++ {
		c.Identities = append(c.Identities, vfAtom("identity"))
	}
	for i := 0; i < m; i++ {
		c.TxHashes = append(c.TxHashes, vfAtom("txhash"))
	}
	h := &PrimevCommitmentHandler{config: &Config{InstanceID: vfU64("cfg.instance")},
		decryptionTriggerChannel: make(chan *broker.Event[*epochkghandler.DecryptionTrigger], 4)}
	res, _ := h.ValidateMessage(context.Background(), c)
	if res != pubsub.ValidationAccept {
		vfReach("rejected")
		return
	}
	vfReach("accepted")
	_, err := h.HandleMessage(context.Background(), c)
	if err == nil {
		vfReach("handled")
	} else {
		vfReach("handle-error")
	}
}

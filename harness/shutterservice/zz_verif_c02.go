package shutterservice

import (
	"bytes"
	"context"

	"github.com/ethereum/go-ethereum/common"
	"github.com/ethereum/go-ethereum/core/types"
	"github.com/jackc/pgx/v4"

	corekeyperdatabase "github.com/shutter-network/rolling-shutter/rolling-shutter/keyper/database"
	"github.com/shutter-network/rolling-shutter/rolling-shutter/keyper/epochkghandler"
	servicedatabase "github.com/shutter-network/rolling-shutter/rolling-shutter/keyperimpl/shutterservice/database"
	syncevent "github.com/shutter-network/rolling-shutter/rolling-shutter/medley/chainsync/event"
	"github.com/shutter-network/rolling-shutter/rolling-shutter/medley/broker"
	"github.com/shutter-network/rolling-shutter/rolling-shutter/shdb"
)

// C02: the Shutter-service keyper never triggers decryption before the release condition.
// Database answers about a keyper set are uninterpreted functions of the keyper-set index, so that
// repeated queries inside one block agree (the tables do not change while a block is handled).

var vfC02 struct {
	own      common.Address
	rows     []servicedatabase.IdentityRegisteredEvent
	fired    []servicedatabase.GetUndecryptedFiredTriggersRow
	rowsErr  bool
	lo, hi   int64
	queried  bool
}

//verif:stub (*github.com/shutter-network/rolling-shutter/rolling-shutter/keyperimpl/shutterservice.Config).GetAddress
func vfStubOwnAddress(c *Config) common.Address { return vfC02.own }

//verif:stub (*github.com/shutter-network/rolling-shutter/rolling-shutter/keyperimpl/shutterservice/database.Queries).GetNotDecryptedIdentityRegisteredEvents sql=getNotDecryptedIdentityRegisteredEvents
func vfStubGetRegistered(q *servicedatabase.Queries, ctx context.Context, arg servicedatabase.GetNotDecryptedIdentityRegisteredEventsParams) ([]servicedatabase.IdentityRegisteredEvent, error) {
	vfC02.queried, vfC02.lo, vfC02.hi = true, arg.Timestamp, arg.Timestamp_2
	if vfC02.rowsErr {
		return nil, vfErr("db")
	}
	// WHERE timestamp >= $1 AND timestamp <= $2 AND decrypted = false ORDER BY timestamp
	for i, r := range vfC02.rows {
		vfAssume(r.Timestamp >= arg.Timestamp && r.Timestamp <= arg.Timestamp_2 && !r.Decrypted)
		if i > 0 {
			vfAssume(vfC02.rows[i-1].Timestamp <= r.Timestamp)
		}
	}
	return vfC02.rows, nil
}

//verif:stub (*github.com/shutter-network/rolling-shutter/rolling-shutter/keyperimpl/shutterservice/database.Queries).GetUndecryptedFiredTriggers sql=getUndecryptedFiredTriggers
func vfStubGetFired(q *servicedatabase.Queries, ctx context.Context) ([]servicedatabase.GetUndecryptedFiredTriggersRow, error) {
	return vfC02.fired, nil
}

func vfEonAbsent(idx int64) bool   { return vfUFBool("eon-absent", idx) }
func vfEonErr(idx int64) bool      { return vfUFBool("eon-query-fails", idx) }
func vfActivation(idx int64) int64 { return int64(vfUFU64("eon-activation", idx)) }
func vfSetAbsent(idx int64) bool   { return vfUFBool("keyper-set-absent", idx) }
func vfMember(idx int64) bool      { return vfUFBool("member", idx) }
func vfDKGAbsent(idx int64) bool   { return vfUFBool("dkg-absent", idx) }
func vfDKGSuccess(idx int64) bool  { return vfUFBool("dkg-success", idx) }

func vfDecryptable(idx int64) bool {
	return !vfEonAbsent(idx) && !vfEonErr(idx) && !vfSetAbsent(idx) && vfMember(idx) && !vfDKGAbsent(idx) && vfDKGSuccess(idx)
}

//verif:stub (*github.com/shutter-network/rolling-shutter/rolling-shutter/keyper/database.Queries).GetLatestStartedEonByKeyperConfigIndex sql=getLatestStartedEonByKeyperConfigIndex
func vfStubLatestEon(q *corekeyperdatabase.Queries, ctx context.Context, idx int64) (corekeyperdatabase.Eon, error) {
	if vfEonErr(idx) {
		return corekeyperdatabase.Eon{}, vfErr("db")
	}
	if vfEonAbsent(idx) {
		return corekeyperdatabase.Eon{}, pgx.ErrNoRows
	}
	return corekeyperdatabase.Eon{Eon: int64(vfUFU64("eon-number", idx)), ActivationBlockNumber: vfActivation(idx), KeyperConfigIndex: idx}, nil
}

//verif:stub (*github.com/shutter-network/rolling-shutter/rolling-shutter/keyper/database.Queries).GetBatchConfig sql=getBatchConfig
func vfStubBatchConfig(q *corekeyperdatabase.Queries, ctx context.Context, idx int32) (corekeyperdatabase.TendermintBatchConfig, error) {
	if vfSetAbsent(int64(idx)) {
		return corekeyperdatabase.TendermintBatchConfig{}, pgx.ErrNoRows
	}
	other := vfAny[common.Address]("cfg.other")
	vfAssume(other != vfC02.own)
	ks := []string{shdb.EncodeAddress(other)}
	if vfMember(int64(idx)) {
		ks = append(ks, shdb.EncodeAddress(vfC02.own))
	}
	return corekeyperdatabase.TendermintBatchConfig{KeyperConfigIndex: idx, Keypers: ks, Threshold: 1}, nil
}

//verif:stub (*github.com/shutter-network/rolling-shutter/rolling-shutter/keyper/database.Queries).GetDKGResultForKeyperConfigIndex sql=getDKGResultForKeyperConfigIndex
func vfStubDKGResult(q *corekeyperdatabase.Queries, ctx context.Context, idx int64) (corekeyperdatabase.DkgResult, error) {
	if vfDKGAbsent(idx) {
		return corekeyperdatabase.DkgResult{}, pgx.ErrNoRows
	}
	return corekeyperdatabase.DkgResult{Eon: idx, Success: vfDKGSuccess(idx)}, nil
}

func vfDrain(ch chan *broker.Event[*epochkghandler.DecryptionTrigger]) []*epochkghandler.DecryptionTrigger {
	var out []*epochkghandler.DecryptionTrigger
	for len(ch) > 0 {
		ev := <-ch
		out = append(out, ev.Value)
	}
	return out
}

func H_C02_time_based() {
	vfC02.own = vfAny[common.Address]("own")
	n := vfLen("rows", vfParam("rows", 2))
	vfC02.rows = nil
	for i := 0; i < n; i++ {
		r := servicedatabase.IdentityRegisteredEvent{BlockNumber: vfI64("row.block"), Eon: vfI64("row.eon"), Timestamp: vfI64("row.timestamp"),
			Decrypted: vfBool("row.decrypted"), Identity: vfBytesN("row.identity", 32)}
		vfAssume(r.Eon >= 0 && r.Eon < 1<<31) // keyper-set indices fit the int32 column of the config table
		for _, o := range vfC02.rows {
			vfAssume(!bytes.Equal(o.Identity, r.Identity)) // one row per identity (primary key)
		}
		vfC02.rows = append(vfC02.rows, r)
	}
	vfC02.rowsErr, vfC02.queried = vfBool("rows-query-fails"), false
	kpr := &Keyper{config: &Config{}, decryptionTriggerChannel: make(chan *broker.Event[*epochkghandler.DecryptionTrigger], 16)}
	var prevMark *uint64
	if vfBool("has-high-water-mark") {
		m := vfU64("high-water-mark")
		vfAssume(m < 1<<62)
		kpr.latestTriggeredTime = &m
		pm := m
		prevMark = &pm
	}
	blockTime := vfU64("block.time")
	blockNumber := vfI64("block.number")
	vfAssume(blockTime < 1<<62 && blockNumber >= 0)
	num := vfBig("block.bignumber")
	vfAssume(num.IsInt64() && num.Int64() == blockNumber)
	block := &syncevent.LatestBlock{Header: &types.Header{Time: blockTime, Number: num}}
	triggers, err := kpr.prepareTimeBasedTriggers(context.Background(), block)
	if err == nil {
		kpr.sendTriggers(context.Background(), triggers)
	}
	sent := vfDrain(kpr.decryptionTriggerChannel)
	if prevMark != nil && blockTime <= *prevMark {
		vfAssert(len(sent) == 0 && !vfC02.queried, "nothing-considered-for-a-block-not-newer-than-the-high-water-mark")
		vfReach("stale-block")
	}
	vfAssert(kpr.latestTriggeredTime != nil || prevMark == nil, "high-water-mark-kept")
	if kpr.latestTriggeredTime != nil && prevMark != nil {
		vfAssert(*kpr.latestTriggeredTime >= *prevMark, "high-water-mark-never-decreases")
	}
	for _, tr := range sent {
		vfReach("trigger-sent")
		for i, id := range tr.IdentityPreimages {
			if i > 0 {
				vfAssert(bytes.Compare(tr.IdentityPreimages[i-1], id) < 0, "identities-sorted-and-distinct")
			}
			found := false
			for _, r := range vfC02.rows {
				if bytes.Equal(r.Identity, id) {
					found = true
					vfAssert(int64(blockTime) > r.Timestamp, "block-time-strictly-after-release-time")
					vfAssert(vfDecryptable(r.Eon), "only-for-a-member-keyper-set-with-successful-dkg")
					vfAssert(blockNumber >= vfActivation(r.Eon), "block-number-reached-activation")
					vfAssert(tr.BlockNumber == uint64(vfActivation(r.Eon)), "trigger-names-the-keyper-sets-activation-block")
				}
			}
			vfAssert(found, "triggered-identity-was-registered")
		}
	}
	if len(sent) == 0 {
		vfReach("nothing-sent")
	}
}

func H_C02_event_based() {
	vfC02.own = vfAny[common.Address]("own")
	n := vfLen("fired", vfParam("rows", 2))
	vfC02.fired = nil
	for i := 0; i < n; i++ {
		r := servicedatabase.GetUndecryptedFiredTriggersRow{Eon: vfI64("fired.eon"), BlockNumber: vfI64("fired.block"), ExpirationBlockNumber: vfI64("fired.expiry"),
			Identity: vfBytesN("fired.identity", 32)}
		vfAssume(r.Eon >= 0 && r.Eon < 1<<31)
		for _, o := range vfC02.fired {
			vfAssume(!bytes.Equal(o.Identity, r.Identity))
		}
		vfC02.fired = append(vfC02.fired, r)
	}
	kpr := &Keyper{config: &Config{}, decryptionTriggerChannel: make(chan *broker.Event[*epochkghandler.DecryptionTrigger], 16)}
	triggers, err := kpr.prepareEventBasedTriggers(context.Background())
	if err == nil {
		kpr.sendTriggers(context.Background(), triggers)
	}
	sent := vfDrain(kpr.decryptionTriggerChannel)
	for _, tr := range sent {
		vfReach("trigger-sent")
		for i, id := range tr.IdentityPreimages {
			if i > 0 {
				vfAssert(bytes.Compare(tr.IdentityPreimages[i-1], id) < 0, "identities-sorted-and-distinct")
			}
			found := false
			for _, r := range vfC02.fired {
				if bytes.Equal(r.Identity, id) {
					found = true
					vfAssert(vfDecryptable(r.Eon), "only-for-a-member-keyper-set-with-successful-dkg")
				}
			}
			vfAssert(found, "triggered-identity-has-a-fired-undecrypted-row")
		}
	}
	if len(sent) == 0 {
		vfReach("nothing-sent")
	}
}

package shutterservice

import (
	"bytes"
	"io"
	"math/big"

	"github.com/ethereum/go-ethereum/common"
	"github.com/ethereum/go-ethereum/rlp"
)

// ---- RLP half of C17 ----
//
// go-ethereum's rlp package is reflection- and stream-driven and is not executed. What the
// repository owns is (a) ValuePredicate.EncodeRLP / DecodeRLP, which lay the operator and its
// arguments out as one flat list and read them back by the operator's arity, (b) the version byte
// and (c) the Validate call in UnmarshalBytes. These run for real against an item-level model of
// the library: an encoded definition is the ghost structure below (contract, per predicate the two
// LogValueRef fields and the item list written by EncodeRLP); the Stream methods read items with
// the library's documented contract (List fails on a non-list, Uint64/BigInt/Bytes fail at the end
// of the list, ListEnd fails while items remain, an integer read of a byte string item or vice
// versa yields an arbitrary value or an error).

type vfRlpTok struct {
	kind int // 0 uint64, 1 big integer, 2 byte string, 3 anything else (nested list)
	u    uint64
	b    *big.Int
	s    []byte
}

type vfRlpPred struct {
	dynamic bool
	offset  uint64
	isList  bool
	toks    []vfRlpTok
}

var vfRlp struct {
	valid    bool // the byte string is an encoding of the outer structure (address, list of pairs)
	contract common.Address
	preds    []vfRlpPred
	cur      int
	pos      int
	open     bool
	encoding bool
}

//verif:stub github.com/ethereum/go-ethereum/rlp.Encode
func vfStubRlpEncode(w io.Writer, val interface{}) error {
	if d, ok := val.(*EventTriggerDefinition); ok {
		// what the reflection-driven encoder does with this struct: fields in order, the slice as
		// a list, LogValueRef as (bool, uint), ValuePredicate through its EncodeRLP method
		vfRlp.contract = d.Contract
		vfRlp.preds = nil
		vfRlp.encoding = true
		for i := range d.LogPredicates {
			lp := &d.LogPredicates[i]
			vfRlp.preds = append(vfRlp.preds, vfRlpPred{dynamic: lp.LogValueRef.Dynamic, offset: lp.LogValueRef.Offset})
			vfRlp.cur = i
			if err := lp.ValuePredicate.EncodeRLP(w); err != nil {
				return err
			}
			vfAssert(vfRlp.preds[i].isList, "value-predicate-is-encoded-as-one-item")
		}
		vfRlp.encoding = false
		vfRlp.valid = true
		return nil
	}
	elems, ok := val.([]interface{})
	vfAssert(ok && vfRlp.encoding, "rlp.Encode is called with the element list of a value predicate")
	if !ok || !vfRlp.encoding {
		return vfErr("rlp-model")
	}
	p := &vfRlp.preds[vfRlp.cur]
	vfAssert(!p.isList, "value-predicate-is-encoded-as-one-item")
	p.isList = true
	for _, e := range elems {
		if u, ok := e.(uint64); ok {
			p.toks = append(p.toks, vfRlpTok{kind: 0, u: u})
		} else if b, ok := e.(*big.Int); ok {
			if b == nil {
				b = new(big.Int) // the library writes a nil *big.Int as zero
			}
			p.toks = append(p.toks, vfRlpTok{kind: 1, b: b})
		} else if s, ok := e.([]byte); ok {
			p.toks = append(p.toks, vfRlpTok{kind: 2, s: s})
		} else {
			p.toks = append(p.toks, vfRlpTok{kind: 3})
		}
	}
	return nil
}

//verif:stub github.com/ethereum/go-ethereum/rlp.DecodeBytes
func vfStubRlpDecodeBytes(b []byte, val interface{}) error {
	d, ok := val.(*EventTriggerDefinition)
	vfAssert(ok, "rlp.DecodeBytes decodes into the definition")
	if !ok || !vfRlp.valid {
		return vfErr("rlp-outer-structure")
	}
	d.Contract = vfRlp.contract
	d.LogPredicates = nil
	for i := range vfRlp.preds {
		lp := LogPredicate{LogValueRef: LogValueRef{Dynamic: vfRlp.preds[i].dynamic, Offset: vfRlp.preds[i].offset}}
		vfRlp.cur, vfRlp.pos, vfRlp.open = i, 0, false
		if err := lp.ValuePredicate.DecodeRLP(&rlp.Stream{}); err != nil {
			return err
		}
		vfAssert(!vfRlp.open, "decoder-leaves-the-list-closed")
		d.LogPredicates = append(d.LogPredicates, lp)
	}
	return nil
}

//verif:stub (*github.com/ethereum/go-ethereum/rlp.Stream).List
func vfStubStreamList(s *rlp.Stream) (uint64, error) {
	p := &vfRlp.preds[vfRlp.cur]
	if vfRlp.open || !p.isList {
		return 0, vfErr("rlp-expected-list")
	}
	vfRlp.open = true
	return vfU64("rlp.listsize"), nil
}

func vfRlpNext() *vfRlpTok {
	p := &vfRlp.preds[vfRlp.cur]
	if !vfRlp.open || vfRlp.pos >= len(p.toks) {
		return nil
	}
	return &p.toks[vfRlp.pos]
}

//verif:stub (*github.com/ethereum/go-ethereum/rlp.Stream).Uint64
func vfStubStreamUint64(s *rlp.Stream) (uint64, error) {
	t := vfRlpNext()
	if t == nil {
		return 0, vfErr("rlp-eol")
	}
	switch t.kind {
	case 0:
		vfRlp.pos++
		return t.u, nil
	case 1:
		if !t.b.IsUint64() {
			return 0, vfErr("rlp-uint-overflow")
		}
		vfRlp.pos++
		return t.b.Uint64(), nil
	case 2:
		if vfBool("rlp.string-is-canonical-uint64") {
			vfRlp.pos++
			return vfU64("rlp.string-as-uint64"), nil
		}
	}
	return 0, vfErr("rlp-not-an-integer")
}

//verif:stub (*github.com/ethereum/go-ethereum/rlp.Stream).BigInt
func vfStubStreamBigInt(s *rlp.Stream) (*big.Int, error) {
	t := vfRlpNext()
	if t == nil {
		return nil, vfErr("rlp-eol")
	}
	switch t.kind {
	case 0:
		vfRlp.pos++
		return new(big.Int).SetUint64(t.u), nil
	case 1:
		if t.b.Sign() < 0 {
			return nil, vfErr("rlp-negative")
		}
		vfRlp.pos++
		return new(big.Int).SetBytes(t.b.Bytes()), nil
	case 2:
		if vfBool("rlp.string-is-canonical-integer") {
			vfRlp.pos++
			return new(big.Int).SetBytes(vfBytes("rlp.string-as-integer", 33)), nil
		}
	}
	return nil, vfErr("rlp-not-an-integer")
}

//verif:stub (*github.com/ethereum/go-ethereum/rlp.Stream).Bytes
func vfStubStreamBytes(s *rlp.Stream) ([]byte, error) {
	t := vfRlpNext()
	if t == nil {
		return nil, vfErr("rlp-eol")
	}
	switch t.kind {
	case 2:
		vfRlp.pos++
		return t.s, nil
	case 0, 1:
		// an integer item is a byte string on the wire (its minimal big-endian form)
		vfRlp.pos++
		return vfBytes("rlp.integer-as-string", 33), nil
	}
	return nil, vfErr("rlp-expected-string")
}

//verif:stub (*github.com/ethereum/go-ethereum/rlp.Stream).ListEnd
func vfStubStreamListEnd(s *rlp.Stream) error {
	p := &vfRlp.preds[vfRlp.cur]
	if !vfRlp.open {
		return vfErr("rlp-not-in-list")
	}
	if vfRlp.pos != len(p.toks) {
		return vfErr("rlp-not-at-end-of-list")
	}
	vfRlp.open = false
	return nil
}

func vfEquivalentDefinitions(a, b *EventTriggerDefinition) bool {
	if a.Contract != b.Contract || len(a.LogPredicates) != len(b.LogPredicates) {
		return false
	}
	for i := range a.LogPredicates {
		p, q := &a.LogPredicates[i], &b.LogPredicates[i]
		if p.LogValueRef != q.LogValueRef || p.ValuePredicate.Op != q.ValuePredicate.Op {
			return false
		}
		if len(p.ValuePredicate.IntArgs) != len(q.ValuePredicate.IntArgs) || len(p.ValuePredicate.ByteArgs) != len(q.ValuePredicate.ByteArgs) {
			return false
		}
		for j := range p.ValuePredicate.IntArgs {
			x, y := p.ValuePredicate.IntArgs[j], q.ValuePredicate.IntArgs[j]
			if x == nil || y == nil || x.Cmp(y) != 0 {
				return false
			}
		}
		for j := range p.ValuePredicate.ByteArgs {
			if !bytes.Equal(p.ValuePredicate.ByteArgs[j], q.ValuePredicate.ByteArgs[j]) {
				return false
			}
		}
	}
	return true
}

// H_C17_rlp_roundtrip: every definition that passes Validate encodes (MarshalBytes -> EncodeRLP)
// and decodes back (UnmarshalBytes -> DecodeRLP -> Validate) to an equivalent definition.
func H_C17_rlp_roundtrip() {
	d := vfDefinition(vfParam("preds", 2))
	vfAssume(d.Validate() == nil)
	vfRlp.valid = false
	b := d.MarshalBytes()
	vfAssert(len(b) >= 1 && b[0] == Version, "encoding-starts-with-the-version-byte")
	var d2 EventTriggerDefinition
	err := d2.UnmarshalBytes(b)
	vfAssert(err == nil, "encoding-of-a-valid-definition-decodes")
	if err != nil {
		return
	}
	vfAssert(vfEquivalentDefinitions(d, &d2), "decoded-definition-equals-the-original")
	vfAssert(d2.Validate() == nil, "decoded-definition-is-valid")
	if len(d.LogPredicates) == vfParam("preds", 2) {
		vfReach("max-predicates")
	}
	if len(d.LogPredicates) == 0 {
		vfReach("no-predicates")
	}
}

// H_C17_rlp_decoded_is_valid: whatever the bytes decode to - any outer structure, any item list
// per value predicate (wrong arity, wrong kinds, not a list), any version byte - a successful
// UnmarshalBytes yields a definition that satisfies the reference validity rules, reflects the
// encoded items, and the decoder neither panics nor loops beyond the operator's arity.
func H_C17_rlp_decoded_is_valid() {
	vfRlp.valid = vfBool("enc.outer-structure-ok")
	vfRlp.contract = vfAny[common.Address]("enc.contract")
	vfRlp.preds = nil
	n := vfLen("enc.npreds", vfParam("preds", 2))
	for i := 0; i < n; i++ {
		p := vfRlpPred{dynamic: vfBool("enc.dynamic"), offset: vfU64("enc.offset"), isList: vfBool("enc.islist")}
		nt := vfLen("enc.ntoks", vfParam("toks", 3))
		for j := 0; j < nt; j++ {
			t := vfRlpTok{kind: int(vfU8("enc.kind"))}
			vfAssume(t.kind <= 3)
			switch t.kind {
			case 0:
				t.u = vfU64("enc.uint")
			case 1:
				t.b = vfBig("enc.big")
				vfAssume(t.b.Sign() >= 0) // RLP has no negative integers
			case 2:
				t.s = vfBytes("enc.bytes", vfParam("bytearg", 33))
			}
			p.toks = append(p.toks, t)
		}
		vfRlp.preds = append(vfRlp.preds, p)
	}
	data := vfBytes("data", 3)
	var d EventTriggerDefinition
	err := d.UnmarshalBytes(data)
	if err != nil {
		vfReach("rejected")
		return
	}
	vfReach("decoded")
	vfAssert(len(data) >= 1 && data[0] == Version, "only-the-supported-version-decodes")
	vfAssert(vfRefValid(&d), "decoded-definition-is-valid")
	vfAssert(d.Contract == vfRlp.contract && len(d.LogPredicates) == n, "decoded-definition-reflects-the-encoding")
	for i := range d.LogPredicates {
		p, e := &d.LogPredicates[i], &vfRlp.preds[i]
		vfAssert(p.LogValueRef.Dynamic == e.dynamic && p.LogValueRef.Offset == e.offset, "decoded-reference-reflects-the-encoding")
		vfAssert(len(p.ValuePredicate.IntArgs)+len(p.ValuePredicate.ByteArgs)+1 == len(e.toks), "every-encoded-item-is-consumed")
		if len(e.toks) >= 1 && e.toks[0].kind == 0 {
			vfAssert(uint64(p.ValuePredicate.Op) == e.toks[0].u, "decoded-operator-is-the-first-item")
		}
		if len(e.toks) == 2 && e.toks[1].kind == 2 && p.ValuePredicate.Op == BytesEq {
			vfAssert(bytes.Equal(p.ValuePredicate.ByteArgs[0], e.toks[1].s), "decoded-byte-argument-is-the-second-item")
		}
		if len(e.toks) == 2 && e.toks[1].kind == 1 && p.ValuePredicate.Op != BytesEq {
			vfAssert(p.ValuePredicate.IntArgs[0].Cmp(e.toks[1].b) == 0, "decoded-integer-argument-is-the-second-item")
		}
	}
}

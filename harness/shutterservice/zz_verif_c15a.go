package shutterservice

import (
	"bytes"

	"github.com/ethereum/go-ethereum/common"
	"github.com/ethereum/go-ethereum/core/types"

	"github.com/shutter-network/rolling-shutter/rolling-shutter/keyperimpl/shutterservice/database"
)

// C15(A): the reorg-depth functions: 0 unless the new head is exactly one past the synced block
// and does not build on the stored hash; else min(assumed depth, synced number).

func vfHeader() (*types.Header, int64) {
	n := vfI64("header.number")
	vfAssume(n >= 0)
	h := &types.Header{Number: vfBig("header.bignumber"), ParentHash: vfAny[common.Hash]("header.parent")}
	vfAssume(h.Number.IsInt64() && h.Number.Int64() == n)
	return h, n
}

func vfRefDepth(headerNumber int64, parent common.Hash, syncedNumber int64, syncedHash []byte, depth int) int {
	if headerNumber != syncedNumber+1 || bytes.Equal(parent[:], syncedHash) {
		return 0
	}
	if syncedNumber < int64(depth) {
		return int(syncedNumber)
	}
	return depth
}

func H_C15A_registry_reorg_depth() {
	h, n := vfHeader()
	s := &database.IdentityRegisteredEventsSyncedUntil{BlockNumber: vfI64("synced.number"), BlockHash: vfBytes("synced.hash", 33)}
	vfAssume(s.BlockNumber >= 0 && s.BlockNumber < 1<<62)
	got := getNumReorgedBlocks(s, h)
	vfAssert(got == vfRefDepth(n, h.ParentHash, s.BlockNumber, s.BlockHash, AssumedReorgDepth), "reorg-depth-equals-reference")
	vfAssert(got >= 0 && int64(got) <= s.BlockNumber, "never-rolls-back-before-genesis")
	if got > 0 {
		vfReach("reorg")
	} else {
		vfReach("no-reorg")
	}
}

func H_C15A_multi_reorg_depth() {
	h, n := vfHeader()
	depth := vfInt("assumed-depth")
	vfAssume(depth >= 0 && depth < 1<<31)
	s := &SyncStatus{BlockNumber: vfI64("synced.number"), BlockHash: vfBytes("synced.hash", 33)}
	vfAssume(s.BlockNumber >= 0 && s.BlockNumber < 1<<62)
	got := calculateReorgDepth(s, h, depth)
	vfAssert(got == vfRefDepth(n, h.ParentHash, s.BlockNumber, s.BlockHash, depth), "reorg-depth-equals-reference")
	vfAssert(got >= 0 && int64(got) <= s.BlockNumber, "never-rolls-back-before-genesis")
	if got > 0 {
		vfReach("reorg")
	} else {
		vfReach("no-reorg")
	}
}

package shutterservice

import (
	"context"

	"github.com/ethereum/go-ethereum/common"
	"github.com/jackc/pgx/v4"
	pubsub "github.com/libp2p/go-libp2p-pubsub"

	obskeyperdatabase "github.com/shutter-network/rolling-shutter/rolling-shutter/chainobserver/db/keyper"
	corekeyperdatabase "github.com/shutter-network/rolling-shutter/rolling-shutter/keyper/database"
	"github.com/shutter-network/rolling-shutter/rolling-shutter/keyperimpl/shutterservice/database"
	"github.com/shutter-network/rolling-shutter/rolling-shutter/p2pmsg"
	"github.com/shutter-network/rolling-shutter/rolling-shutter/shdb"
)

// C05 (Shutter service): validate-then-handle on arbitrary decoded messages, no panic.
// Also the C02 clause on updateEventFlag: parallel arrays of equal length naming the released identities.

var vfS struct {
	setMissing bool
	set        obskeyperdatabase.KeyperSet
	sigRows    int
	writes     int
	askedIdx   int64
}

//verif:stub (*github.com/shutter-network/rolling-shutter/rolling-shutter/chainobserver/db/keyper.Queries).GetKeyperSetByKeyperConfigIndex sql=getKeyperSetByKeyperConfigIndex
func vfStubGetKeyperSet(q *obskeyperdatabase.Queries, ctx context.Context, idx int64) (obskeyperdatabase.KeyperSet, error) {
	vfS.askedIdx = idx
	if vfS.setMissing {
		return obskeyperdatabase.KeyperSet{}, pgx.ErrNoRows
	}
	return vfS.set, nil
}

//verif:stub (*github.com/shutter-network/rolling-shutter/rolling-shutter/keyperimpl/shutterservice/database.Queries).InsertDecryptionSignature sql=insertDecryptionSignature
func vfStubInsertSig(q *database.Queries, ctx context.Context, arg database.InsertDecryptionSignatureParams) error {
	vfS.writes++
	if vfBool("db.insert-sig-fails") {
		return vfErr("db")
	}
	return nil
}

//verif:stub (*github.com/shutter-network/rolling-shutter/rolling-shutter/keyperimpl/shutterservice/database.Queries).GetDecryptionSignatures sql=getDecryptionSignatures
func vfStubGetSigs(q *database.Queries, ctx context.Context, arg database.GetDecryptionSignaturesParams) ([]database.DecryptionSignature, error) {
	if vfBool("db.get-sigs-fails") {
		return nil, vfErr("db")
	}
	var rows []database.DecryptionSignature
	n := vfLen("db.sigrows", vfS.sigRows)
	for i := 0; i < n; i++ {
		rows = append(rows, database.DecryptionSignature{Eon: arg.Eon, KeyperIndex: vfI64("db.sig.keyper"), IdentitiesHash: arg.IdentitiesHash, Signature: vfBytes("db.sig.signature", 2)})
	}
	vfAssume(arg.Limit < 0 || int64(n) <= int64(arg.Limit))
	return rows, nil
}

//verif:stub (*github.com/shutter-network/rolling-shutter/rolling-shutter/keyper/database.Queries).GetDecryptionKey sql=getDecryptionKey
func vfStubGetDecryptionKey(q *corekeyperdatabase.Queries, ctx context.Context, arg corekeyperdatabase.GetDecryptionKeyParams) (corekeyperdatabase.DecryptionKey, error) {
	if vfBool("db.key-missing") {
		return corekeyperdatabase.DecryptionKey{}, pgx.ErrNoRows
	}
	if vfBool("db.key-error") {
		return corekeyperdatabase.DecryptionKey{}, vfErr("db")
	}
	return corekeyperdatabase.DecryptionKey{Eon: arg.Eon, EpochID: arg.EpochID, DecryptionKey: vfBytes("db.key", 2)}, nil
}

var vfFlagKeys *p2pmsg.DecryptionKeys

func vfCheckFlagArrays(eons []int64, ids [][]byte) {
	vfAssert(len(eons) == len(ids), "decrypted-flag-arrays-have-equal-length")
	if vfFlagKeys != nil {
		vfAssert(len(ids) == len(vfFlagKeys.Keys), "decrypted-flags-name-exactly-the-released-identities")
		for i := range ids {
			if i < len(vfFlagKeys.Keys) {
				vfAssert(vfDeepEq(ids[i], vfFlagKeys.Keys[i].IdentityPreimage) && eons[i] == int64(vfFlagKeys.Eon), "decrypted-flag-entry-matches-released-key")
			}
		}
	}
}

//verif:stub (*github.com/shutter-network/rolling-shutter/rolling-shutter/keyperimpl/shutterservice/database.Queries).UpdateTimeBasedDecryptedFlags sql=updateTimeBasedDecryptedFlags
func vfStubUpdateTime(q *database.Queries, ctx context.Context, arg database.UpdateTimeBasedDecryptedFlagsParams) error {
	vfS.writes++
	vfCheckFlagArrays(arg.Eons, arg.Identities)
	if vfBool("db.update-time-fails") {
		return vfErr("db")
	}
	return nil
}

//verif:stub (*github.com/shutter-network/rolling-shutter/rolling-shutter/keyperimpl/shutterservice/database.Queries).UpdateEventBasedDecryptedFlags sql=updateEventBasedDecryptedFlags
func vfStubUpdateEvent(q *database.Queries, ctx context.Context, arg database.UpdateEventBasedDecryptedFlagsParams) error {
	vfS.writes++
	vfCheckFlagArrays(arg.Eons, arg.Identities)
	if vfBool("db.update-event-fails") {
		return vfErr("db")
	}
	return nil
}

//verif:stub github.com/ethereum/go-ethereum/crypto.Keccak256
func vfStubKeccak(data ...[]byte) []byte { return vfBytesN("keccak", 32) }

func vfKeyperSet(n int) {
	vfS.setMissing = vfBool("db.set-missing")
	vfS.set = obskeyperdatabase.KeyperSet{KeyperConfigIndex: vfI64("set.index"), Threshold: vfI32("set.threshold")}
	k := vfLen("set.nkeypers", n)
	for i := 0; i < k; i++ {
		if vfBool("set.keyper-malformed") {
			vfS.set.Keypers = append(vfS.set.Keypers, vfAtom("set.badkeyper"))
		} else {
			vfS.set.Keypers = append(vfS.set.Keypers, shdb.EncodeAddress(vfAny[common.Address]("set.keyper")))
		}
	}
	vfS.writes = 0
	vfFlagKeys = nil
}

func H_C05_service_shares() {
	list := vfParam("list", 2)
	vfKeyperSet(vfParam("keypers", 2))
	vfS.sigRows = vfParam("sigrows", 2)
	msg := &p2pmsg.DecryptionKeyShares{InstanceId: vfU64("instance"), Eon: vfU64("eon"), KeyperIndex: vfU64("keyperindex")}
	n := vfLen("nshares", list)
	for i := 0; i < n; i++ {
		msg.Shares = append(msg.Shares, &p2pmsg.KeyShare{IdentityPreimage: vfBytes("identity", 33), Share: vfBytes("share", 2)})
	}
	switch vfLen("extra-kind", 3) {
	case 0:
		msg.Extra = &p2pmsg.DecryptionKeyShares_Service{Service: &p2pmsg.ShutterServiceDecryptionKeySharesExtra{Signature: vfBytes("signature", 2)}}
	case 1:
		msg.Extra = &p2pmsg.DecryptionKeyShares_Service{}
	case 2:
		msg.Extra = &p2pmsg.DecryptionKeyShares_Gnosis{Gnosis: &p2pmsg.GnosisDecryptionKeySharesExtra{Signature: vfBytes("signature", 2)}}
	}
	h := &DecryptionKeySharesHandler{}
	res, _ := h.ValidateMessage(context.Background(), msg)
	if res != pubsub.ValidationAccept {
		vfAssert(vfS.writes == 0, "rejected-message-writes-nothing")
		vfReach("rejected")
		return
	}
	vfReach("accepted")
	out, err := h.HandleMessage(context.Background(), msg)
	if err == nil && len(out) > 0 {
		vfReach("keys-produced")
		ex := out[0].(*p2pmsg.DecryptionKeys).Extra.(*p2pmsg.DecryptionKeys_Service).Service
		vfAssert(len(ex.Signature) == len(ex.SignerIndices), "produced-keys-message-has-one-signature-per-signer")
	}
}

func H_C05_service_keys() {
	list := vfParam("list", 2)
	vfKeyperSet(vfParam("keypers", 2))
	msg := &p2pmsg.DecryptionKeys{InstanceId: vfU64("instance"), Eon: vfU64("eon")}
	n := vfLen("nkeys", list)
	for i := 0; i < n; i++ {
		msg.Keys = append(msg.Keys, &p2pmsg.Key{IdentityPreimage: vfBytes("identity", 33), Key: vfBytes("key", 2)})
	}
	mk := func() *p2pmsg.ShutterServiceDecryptionKeysExtra {
		ex := &p2pmsg.ShutterServiceDecryptionKeysExtra{}
		ns := vfLen("nsigners", list+1)
		for i := 0; i < ns; i++ {
			ex.SignerIndices = append(ex.SignerIndices, vfU64("signer"))
		}
		nsig := vfLen("nsignatures", list+1)
		for i := 0; i < nsig; i++ {
			ex.Signature = append(ex.Signature, vfBytes("signature", 2))
		}
		return ex
	}
	switch vfLen("extra-kind", 3) {
	case 0:
		msg.Extra = &p2pmsg.DecryptionKeys_Service{Service: mk()}
	case 1:
		msg.Extra = &p2pmsg.DecryptionKeys_Service{}
	case 2:
		msg.Extra = &p2pmsg.DecryptionKeys_Gnosis{Gnosis: &p2pmsg.GnosisDecryptionKeysExtra{}}
	}
	h := &DecryptionKeysHandler{}
	res, _ := h.ValidateMessage(context.Background(), msg)
	if res != pubsub.ValidationAccept {
		vfAssert(vfS.writes == 0, "rejected-message-writes-nothing")
		vfReach("rejected")
		return
	}
	vfReach("accepted")
	// C06 at the level of the handler (see the Gnosis twin)
	vfAssert(!vfS.setMissing && vfS.askedIdx == int64(msg.Eon), "keyper-set-of-the-message-eon-is-consulted")
	ref, _ := ValidateDecryptionKeysSignatures(msg, msg.Extra.(*p2pmsg.DecryptionKeys_Service).Service, &vfS.set)
	vfAssert(ref == pubsub.ValidationAccept, "accepted-keys-message-carries-a-threshold-of-genuine-signatures-or-none-at-all")
	vfFlagKeys = msg
	_, err := h.HandleMessage(context.Background(), msg)
	if err == nil {
		vfReach("handled")
	}
}

package shutterservice

import (
	"context"
	"math/big"

	"github.com/ethereum/go-ethereum/common"
	"github.com/ethereum/go-ethereum/core/types"
	"github.com/ethereum/go-ethereum/ethclient"
	"github.com/jackc/pgconn"
	"github.com/jackc/pgx/v4"
	"github.com/jackc/pgx/v4/pgxpool"

	triggerRegistryV1Bindings "github.com/shutter-network/contracts/v2/bindings/shuttereventtriggerregistryv1"

	"github.com/shutter-network/rolling-shutter/rolling-shutter/keyperimpl/shutterservice/database"
)

// C15 (C), event-trigger registrations: inductive step of MultiEventSyncer.Sync with the real
// EventTriggerRegisteredEventProcessor over the same two-chain oracle as the registry syncer
// (zz_verif_c15c.go): A is the chain followed so far, B the canonical chain of the new head, they
// agree up to the fork point. The registration table is projected onto one arbitrary trigger T
// whose registration event sits at height h (on A, on B, on both or on neither).

type vfOracleM struct {
	h        uint64
	start    uint64
	fork     uint64
	evA, evB bool
}

type vfTabM struct {
	hasPos   bool
	pos      int64
	hashOnA  bool
	hashOnB  bool
	row      bool
	rowFromA bool
	rowFromB bool
}

var (
	vfOM        vfOracleM
	vfTM        vfTabM
	vfTxFailM   []bool
	vfTxNoM     int
	vfRPCFailM  int
	vfRPCNoM    int
)

func vfRPCFailsM() bool {
	k := vfRPCNoM
	vfRPCNoM++
	return k == vfRPCFailM
}

func vfSameM(n uint64) bool { return n <= vfOM.fork }

// the abigen iterator drain is not executed: the stub returns B's registration events in range
//
//verif:stub (*github.com/shutter-network/rolling-shutter/rolling-shutter/keyperimpl/shutterservice.EventTriggerRegisteredEventProcessor).FetchEvents
func vfStubRegFetchM(p *EventTriggerRegisteredEventProcessor, ctx context.Context, start, end uint64) ([]Event, error) {
	if vfRPCFailsM() {
		return nil, vfErr("rpc")
	}
	var out []Event
	if vfOM.evB && start <= vfOM.h && vfOM.h <= end {
		out = append(out, &triggerRegistryV1Bindings.Shuttereventtriggerregistryv1EventTriggerRegistered{
			Eon: 1, TriggerDefinition: []byte("definition-of-T"), ExpirationBlockNumber: vfExpiryM(), Raw: types.Log{BlockNumber: vfOM.h}})
	}
	return out, nil
}

// T's event is admissible: eon and expiry fit int64, the definition decodes
func vfExpiryM() uint64 {
	e := vfU64("expiry")
	vfAssume(e < 1<<63)
	return e
}

//verif:stub (*github.com/shutter-network/rolling-shutter/rolling-shutter/keyperimpl/shutterservice.EventTriggerDefinition).UnmarshalBytes
func vfStubUnmarshalDefM(d *EventTriggerDefinition, data []byte) error { return nil }

//verif:stub github.com/ethereum/go-ethereum/crypto.Keccak256
func vfStubKeccakM(data ...[]byte) []byte { return []byte("identity-of-T") }

//verif:stub (*github.com/ethereum/go-ethereum/ethclient.Client).HeaderByNumber
func vfStubHeaderByNumberM(c *ethclient.Client, ctx context.Context, n *big.Int) (*types.Header, error) {
	if vfRPCFailsM() {
		return nil, vfErr("rpc")
	}
	return &types.Header{Number: n}, nil // B's block n
}

//verif:stub (*github.com/ethereum/go-ethereum/core/types.Header).Hash
func vfStubHashM(h *types.Header) common.Hash {
	var out common.Hash
	out[0] = 0xB
	return out
}

// a distinguished transaction handle: every write of a sync step must go through it
type vfMeTxT struct{ pgx.Tx }

var vfMeInTx *vfMeTxT

func vfMeThroughTx(q *database.Queries) {
	vfAssert(vfMeInTx != nil && vfDeepEq(q, database.New(vfMeInTx)), "writes-go-through-the-sync-transaction")
}

//verif:stub (*github.com/jackc/pgx/v4/pgxpool.Pool).BeginFunc
func vfStubBeginFuncM(p *pgxpool.Pool, ctx context.Context, f func(pgx.Tx) error) error {
	snapshot := vfTM
	fail := false
	if vfTxNoM < len(vfTxFailM) {
		fail = vfTxFailM[vfTxNoM]
	}
	vfTxNoM++
	vfMeInTx = &vfMeTxT{}
	err := f(vfMeInTx)
	vfMeInTx = nil
	if err != nil || fail {
		vfTM = snapshot
		if err == nil {
			err = vfErr("tx failed")
		}
		return err
	}
	return nil
}

//verif:stub (*github.com/shutter-network/rolling-shutter/rolling-shutter/keyperimpl/shutterservice/database.Queries).GetMultiEventSyncStatus sql=getMultiEventSyncStatus
func vfStubGetStatusM(q *database.Queries, ctx context.Context) (database.MultiEventSyncStatus, error) {
	if !vfTM.hasPos {
		return database.MultiEventSyncStatus{}, pgx.ErrNoRows
	}
	hash := []byte{}
	if vfTM.hashOnB {
		hash = make([]byte, 32)
		hash[0] = 0xB
	} else if vfTM.hashOnA {
		hash = make([]byte, 32)
		hash[0] = 0xA
	}
	return database.MultiEventSyncStatus{BlockNumber: vfTM.pos, BlockHash: hash}, nil
}

//verif:stub (*github.com/shutter-network/rolling-shutter/rolling-shutter/keyperimpl/shutterservice/database.Queries).SetMultiEventSyncStatus sql=setMultiEventSyncStatus
func vfStubSetStatusM(q *database.Queries, ctx context.Context, arg database.SetMultiEventSyncStatusParams) error {
	vfMeThroughTx(q)
	vfTM.hasPos, vfTM.pos = true, arg.BlockNumber
	vfTM.hashOnB = len(arg.BlockHash) == 32 && arg.BlockHash[0] == 0xB
	vfTM.hashOnA = vfTM.hashOnB && arg.BlockNumber >= 0 && vfSameM(uint64(arg.BlockNumber))
	return nil
}

//verif:stub (*github.com/shutter-network/rolling-shutter/rolling-shutter/keyperimpl/shutterservice/database.Queries).DeleteEventTriggerRegisteredEventsFromBlockNumber sql=deleteEventTriggerRegisteredEventsFromBlockNumber
func vfStubDeleteRegM(q *database.Queries, ctx context.Context, from int64) error {
	vfMeThroughTx(q)
	if int64(vfOM.h) >= from {
		vfTM.row, vfTM.rowFromA, vfTM.rowFromB = false, false, false
	}
	return nil
}

//verif:stub (*github.com/shutter-network/rolling-shutter/rolling-shutter/keyperimpl/shutterservice/database.Queries).InsertEventTriggerRegisteredEvent sql=insertEventTriggerRegisteredEvent
func vfStubInsertRegM(q *database.Queries, ctx context.Context, arg database.InsertEventTriggerRegisteredEventParams) (pgconn.CommandTag, error) {
	vfMeThroughTx(q)
	if arg.BlockNumber == int64(vfOM.h) {
		vfTM.row, vfTM.rowFromB = true, true
		vfTM.rowFromA = vfSameM(vfOM.h)
	}
	return nil, nil
}

func vfFollowsM(onB bool) bool {
	if !vfTM.hasPos || vfTM.pos < 0 {
		return !vfTM.row
	}
	if vfOM.h <= vfOM.start {
		// a conservative rollback may reach below the start block and re-sync from there; what
		// lies at or before the start block is outside the statement (as for the registry syncer)
		return true
	}
	if vfOM.h > uint64(vfTM.pos) {
		return !vfTM.row // rows never lie above the position
	}
	ev, from := vfOM.evA, vfTM.rowFromA
	if onB {
		ev, from = vfOM.evB, vfTM.rowFromB
	}
	if ev {
		return vfTM.row && from
	}
	return !vfTM.row
}

func vfInvBM() bool {
	if !vfTM.hasPos || !vfTM.hashOnB || vfTM.pos < 0 {
		return true
	}
	if vfOM.h <= vfOM.start || vfOM.h > uint64(vfTM.pos) {
		return true
	}
	if vfOM.evB {
		return vfTM.row && vfTM.rowFromB
	}
	return !vfTM.row
}

func H_C15C_multievent_sync_step() {
	o := &vfOM
	o.h, o.start, o.fork = vfU64("h"), vfU64("sync-start"), vfU64("fork-point")
	o.evA, o.evB = vfBool("event-at-h.A"), vfBool("event-at-h.B")
	vfAssume(o.h < 1<<40 && o.start < 1<<40)
	vfAssume(!vfSameM(o.h) || o.evA == o.evB)
	vfTM = vfTabM{hasPos: vfBool("pre.has-position"), pos: vfI64("pre.position"), hashOnA: vfBool("pre.hash-canonical"),
		row: vfBool("pre.row"), rowFromA: vfBool("pre.row-from-A")}
	vfAssume(vfTM.pos >= 0 && vfTM.pos < 1<<40)
	// the multi event syncer counts the start block as already synced: position >= start
	vfAssume(!vfTM.hasPos || uint64(vfTM.pos) >= o.start)
	vfAssume(vfTM.hasPos || !vfTM.row)
	vfAssume(!vfTM.rowFromA || vfTM.row)
	vfTM.rowFromB = vfTM.rowFromA && vfSameM(o.h)
	vfTM.hashOnB = vfTM.hashOnA && vfSameM(uint64(vfTM.pos))
	vfAssume(vfFollowsM(false))
	pre := vfTM

	N := vfU64("head.number")
	vfAssume(N < 1<<40)
	head := &types.Header{Number: new(big.Int).SetUint64(N)}
	parentIsStored := vfBool("head.parent-is-stored-hash")
	if parentIsStored {
		head.ParentHash[0] = 0xB
	}
	s := &MultiEventSyncer{Processors: map[string]EventProcessor{"event_trigger_registered": &EventTriggerRegisteredEventProcessor{}},
		AssumedReorgDepth: DefaultAssumedReorgDepth, MaxRequestBlockRange: DefaultMaxRequestBlockRange, SyncStartBlockNumber: o.start}
	if pre.hasPos {
		vfAssume(N != uint64(pre.pos)+1 || parentIsStored == pre.hashOnB)
		if !vfSameM(uint64(pre.pos)) {
			vfAssume(o.fork+uint64(s.AssumedReorgDepth) >= uint64(pre.pos) && N <= uint64(pre.pos)+1)
		}
	}
	first := o.start + 1
	if pre.hasPos {
		first = uint64(pre.pos) + 1
	}
	vfAssume(N < first || N-first < 2*s.MaxRequestBlockRange)
	vfTxFailM = []bool{vfBool("tx0-fails"), vfBool("tx1-fails"), vfBool("tx2-fails")}
	vfTxNoM, vfRPCNoM = 0, 0
	vfRPCFailM = vfInt("rpc-fails-at")
	vfAssume(vfRPCFailM >= -1 && vfRPCFailM < vfParam("rpcfail", 3))

	err := s.Sync(context.Background(), head)
	vfAssert(vfInvBM(), "stored-registrations-equal-canonical-registrations-whenever-the-position-is-canonical")
	vfAssert(vfFollowsM(true) || (vfTM == pre && vfFollowsM(false)), "table-follows-one-chain-up-to-the-position")
	if err == nil && vfTM.hasPos && vfTM.pos == int64(N) && N >= first {
		vfReach("synced-to-head")
	}
	if err != nil {
		vfReach("sync-error")
	}
	if pre.hasPos && vfTM.hasPos && vfTM.pos < pre.pos {
		vfReach("rolled-back")
	}
}

package shutterservice

import (
	"bytes"
	"context"
	"math/big"

	"github.com/ethereum/go-ethereum"
	"github.com/ethereum/go-ethereum/common"
	"github.com/ethereum/go-ethereum/core/types"
	"github.com/ethereum/go-ethereum/ethclient"
	"github.com/jackc/pgconn"
	"github.com/jackc/pgx/v4"
	"github.com/jackc/pgx/v4/pgxpool"

	triggerRegistryV1Bindings "github.com/shutter-network/contracts/v2/bindings/shuttereventtriggerregistryv1"

	"github.com/shutter-network/rolling-shutter/rolling-shutter/keyperimpl/shutterservice/database"
)

// C16: the tables are projected onto one distinguished ("Skolem") trigger T and one matching log M;
// everything else in the tables is irrelevant to whether T is recorded as fired, so table sizes and
// chain length are unbounded. The symbolic chain segment is two blocks [a, a+1].

type vfChainT struct {
	a          uint64 // first block of the segment
	regInRange bool   // T's registration event lies in the segment ...
	regBlock   uint64 // ... at this block
	logInRange bool   // a log matching T lies in the segment ...
	logBlock   uint64 // ... at this block
	expiry     uint64
	eon        uint64
	prefix     [32]byte
	sender     common.Address
	contract   common.Address
	otherLog   bool // an unrelated log of the same contract that does not match
	secondLog  bool // a second matching log in the block after the first one
}

type vfTablesT struct {
	registered bool
	regBlock   int64
	decrypted  bool
	fired      bool
	firedBlock int64
	syncedTo   int64
	synced     bool
}

var (
	vfChain  vfChainT
	vfTab    vfTablesT
	vfDefBytes = []byte("definition-of-T")
)

//verif:stub (*github.com/ethereum/go-ethereum/ethclient.Client).HeaderByNumber
func vfStubHeaderByNumber(c *ethclient.Client, ctx context.Context, n *big.Int) (*types.Header, error) {
	return &types.Header{Number: n}, nil
}

//verif:stub (*github.com/ethereum/go-ethereum/core/types.Header).Hash
func vfStubHeaderHash(h *types.Header) common.Hash {
	var out common.Hash
	copy(out[:], vfUFBytesN("canonical-hash", 32, h.Number.Uint64()))
	return out
}

// The abigen iterator drain of the registration processor is not executed: the stub returns the
// registration events of the canonical chain in [start, end] (contract of eth_getLogs).
//
//verif:stub (*github.com/shutter-network/rolling-shutter/rolling-shutter/keyperimpl/shutterservice.EventTriggerRegisteredEventProcessor).FetchEvents
func vfStubRegFetch(p *EventTriggerRegisteredEventProcessor, ctx context.Context, start, end uint64) ([]Event, error) {
	var out []Event
	if vfChain.regInRange && start <= vfChain.regBlock && vfChain.regBlock <= end {
		out = append(out, &triggerRegistryV1Bindings.Shuttereventtriggerregistryv1EventTriggerRegistered{
			Eon: vfChain.eon, IdentityPrefix: vfChain.prefix, Sender: vfChain.sender, TriggerDefinition: vfDefBytes,
			ExpirationBlockNumber: vfChain.expiry, Raw: types.Log{BlockNumber: vfChain.regBlock, Address: vfChain.contract},
		})
	}
	return out, nil
}

// decoding of the stored definition: T's definition is "any log of the contract" (no predicates)
//
//verif:stub (*github.com/shutter-network/rolling-shutter/rolling-shutter/keyperimpl/shutterservice.EventTriggerDefinition).UnmarshalBytes
func vfStubUnmarshalDef(d *EventTriggerDefinition, data []byte) error {
	d.Contract = vfChain.contract
	d.LogPredicates = nil
	return nil
}

//verif:stub github.com/ethereum/go-ethereum/crypto.Keccak256
func vfStubKeccak16(data ...[]byte) []byte { return []byte("identity-of-T") }

//verif:stub (*github.com/shutter-network/rolling-shutter/rolling-shutter/keyperimpl/shutterservice/database.Queries).InsertEventTriggerRegisteredEvent sql=insertEventTriggerRegisteredEvent
func vfStubInsertReg(q *database.Queries, ctx context.Context, arg database.InsertEventTriggerRegisteredEventParams) (pgconn.CommandTag, error) {
	vfTab.registered = true // upsert on (eon, identity)
	vfTab.regBlock = arg.BlockNumber
	vfAssert(uint64(arg.ExpirationBlockNumber) == vfChain.expiry && uint64(arg.Eon) == vfChain.eon, "registration-row-carries-the-events-fields")
	return nil, nil
}

//verif:stub (*github.com/shutter-network/rolling-shutter/rolling-shutter/keyperimpl/shutterservice/database.Queries).GetActiveEventTriggerRegisteredEvents sql=getActiveEventTriggerRegisteredEvents
func vfStubGetActive(q *database.Queries, ctx context.Context, block int64) ([]database.EventTriggerRegisteredEvent, error) {
	// WHERE expiration_block_number >= $1 AND NOT decrypted AND NOT EXISTS(fired row)
	if vfTab.registered && int64(vfChain.expiry) >= block && !vfTab.decrypted && !vfTab.fired {
		return []database.EventTriggerRegisteredEvent{{BlockNumber: vfTab.regBlock, Eon: int64(vfChain.eon), IdentityPrefix: vfChain.prefix[:],
			Sender: "sender", Definition: vfDefBytes, ExpirationBlockNumber: int64(vfChain.expiry), Identity: []byte("identity-of-T")}}, nil
	}
	return nil, nil
}

//verif:stub (*github.com/ethereum/go-ethereum/ethclient.Client).FilterLogs
func vfStubFilterLogs(c *ethclient.Client, ctx context.Context, q ethereum.FilterQuery) ([]types.Log, error) {
	from, to := q.FromBlock.Uint64(), q.ToBlock.Uint64()
	var out []types.Log
	if vfChain.otherLog {
		// a log of another contract can never be returned for this filter; one of the same
		// contract in range may
		out = append(out, types.Log{Address: vfChain.contract, BlockNumber: from})
	}
	if vfChain.logInRange && from <= vfChain.logBlock && vfChain.logBlock <= to {
		out = append(out, types.Log{Address: vfChain.contract, BlockNumber: vfChain.logBlock})
	}
	if vfChain.secondLog && from <= vfChain.logBlock+1 && vfChain.logBlock+1 <= to {
		out = append(out, types.Log{Address: vfChain.contract, BlockNumber: vfChain.logBlock + 1})
	}
	return out, nil
}

//verif:stub (*github.com/shutter-network/rolling-shutter/rolling-shutter/keyperimpl/shutterservice/database.Queries).InsertFiredTrigger sql=insertFiredTrigger
func vfStubInsertFired(q *database.Queries, ctx context.Context, arg database.InsertFiredTriggerParams) error {
	if !vfTab.fired { // ON CONFLICT (eon, identity) DO NOTHING
		vfTab.fired = true
		vfTab.firedBlock = arg.BlockNumber
	}
	return nil
}

//verif:stub (*github.com/shutter-network/rolling-shutter/rolling-shutter/keyperimpl/shutterservice/database.Queries).SetMultiEventSyncStatus sql=setMultiEventSyncStatus
func vfStubSetStatus(q *database.Queries, ctx context.Context, arg database.SetMultiEventSyncStatusParams) error {
	vfTab.synced, vfTab.syncedTo = true, arg.BlockNumber
	return nil
}

//verif:stub (*github.com/jackc/pgx/v4/pgxpool.Pool).BeginFunc
func vfStubBeginFunc(p *pgxpool.Pool, ctx context.Context, f func(pgx.Tx) error) error {
	return f(nil) // commit (failures are the subject of C15)
}

func vfSyncer() *MultiEventSyncer {
	return &MultiEventSyncer{Processors: map[string]EventProcessor{
		"event_trigger_registered": &EventTriggerRegisteredEventProcessor{},
		"trigger":                  &TriggerProcessor{},
	}, AssumedReorgDepth: DefaultAssumedReorgDepth, MaxRequestBlockRange: DefaultMaxRequestBlockRange}
}

func vfScenario() vfTablesT {
	c := &vfChain
	c.a = vfU64("a")
	vfAssume(c.a >= 1 && c.a < 1<<40)
	c.regInRange, c.regBlock = vfBool("reg.in-range"), vfU64("reg.block")
	c.logInRange, c.logBlock = vfBool("log.in-range"), vfU64("log.block")
	vfAssume(!c.regInRange || (c.regBlock >= c.a && c.regBlock <= c.a+1))
	vfAssume(!c.logInRange || (c.logBlock >= c.a && c.logBlock <= c.a+1))
	c.expiry, c.eon = vfU64("expiry"), vfU64("eon")
	vfAssume(c.expiry < 1<<62 && c.eon < 1<<62)
	c.prefix, c.sender, c.contract = vfAny[[32]byte]("prefix"), vfAny[common.Address]("sender"), vfAny[common.Address]("contract")
	c.secondLog = false
	c.otherLog = false // T matches every log of its contract, and the filter returns only logs of that contract
	pre := vfTablesT{registered: vfBool("pre.registered"), regBlock: vfI64("pre.regblock"), decrypted: vfBool("pre.decrypted"), fired: vfBool("pre.fired"),
		firedBlock: vfI64("pre.firedblock"), synced: true, syncedTo: int64(c.a) - 1}
	// a trigger registered before the segment was registered in an earlier block; it is registered
	// once per chain (the registry contract rejects re-registration)
	vfAssume(!pre.registered || (pre.regBlock >= 0 && pre.regBlock < int64(c.a)))
	vfAssume(!(pre.registered && c.regInRange))
	vfAssume(!pre.fired || pre.registered)
	vfAssume(!pre.decrypted || pre.registered)
	return pre
}

// reference (property statement): T is recorded as fired after the segment iff it was fired
// before, or a matching log occurs after T's registration block and not after its expiry block
// while T is not decrypted.
func vfShouldBeFired(pre vfTablesT) bool {
	if pre.fired {
		return true
	}
	c := &vfChain
	if pre.decrypted || !c.logInRange {
		return false
	}
	if pre.registered {
		return c.logBlock <= c.expiry
	}
	return c.regInRange && c.regBlock < c.logBlock && c.logBlock <= c.expiry
}

func H_C16_batching() {
	pre := vfScenario()
	s := vfSyncer()
	a := vfChain.a
	// run 1: the whole segment in one sync step
	vfTab = pre
	_, err := s.syncRange(context.Background(), a, a+1)
	vfAssert(err == nil, "no-error")
	batched := vfTab
	// run 2: block by block
	vfTab = pre
	_, err = s.syncRange(context.Background(), a, a)
	vfAssert(err == nil, "no-error")
	_, err = s.syncRange(context.Background(), a+1, a+1)
	vfAssert(err == nil, "no-error")
	blockwise := vfTab
	want := vfShouldBeFired(pre)
	vfAssert(blockwise.fired == want, "blockwise-sync-fires-iff-matching-log-in-time")
	vfAssert(batched.fired == want, "batched-sync-fires-iff-matching-log-in-time")
	vfAssert(batched.fired == blockwise.fired, "fired-set-independent-of-batching")
	if want && !pre.fired {
		vfReach("fires")
		vfAssert(!blockwise.fired || blockwise.firedBlock == int64(vfChain.logBlock), "fired-row-records-the-matching-logs-block")
	} else {
		vfReach("does-not-fire")
	}
	vfAssert(batched.syncedTo == int64(a+1) && blockwise.syncedTo == int64(a+1), "position-advanced-to-the-end-of-the-segment")
}

// A trigger fires at most once, and WHICH log fired it is part of the stored state (a later reorg
// removes fired rows by their block): with two matching logs in consecutive blocks the fired row
// records the first one, whether the two blocks are synced in one step or one by one.
func H_C16_first_matching_log_wins() {
	pre := vfScenario()
	vfAssume(pre.registered && !pre.fired && !pre.decrypted && !vfChain.regInRange)
	vfAssume(vfChain.logInRange && vfChain.logBlock == vfChain.a && vfChain.expiry >= vfChain.a+1)
	vfChain.secondLog = true
	defer func() { vfChain.secondLog = false }()
	s := vfSyncer()
	a := vfChain.a
	vfTab = pre
	_, err := s.syncRange(context.Background(), a, a+1)
	vfAssert(err == nil, "no-error")
	batched := vfTab
	vfTab = pre
	_, err = s.syncRange(context.Background(), a, a)
	vfAssert(err == nil, "no-error")
	_, err = s.syncRange(context.Background(), a+1, a+1)
	vfAssert(err == nil, "no-error")
	blockwise := vfTab
	vfAssert(batched.fired && blockwise.fired, "fires-in-both-schedules")
	vfAssert(blockwise.firedBlock == int64(a), "blockwise-sync-records-the-first-matching-log")
	vfAssert(batched.firedBlock == blockwise.firedBlock, "fired-row-independent-of-batching")
	vfReach("two-matching-logs")
}

// one fetch is exact: every returned event pairs the active trigger with a log of the range that
// matches and is not past the expiry, and every such log is returned
func H_C16_fetch_exact() {
	pre := vfScenario()
	vfTab = pre
	start, end := vfChain.a, vfChain.a+1
	if vfBool("single-block") {
		end = start
	}
	tp := &TriggerProcessor{}
	evs, err := tp.FetchEvents(context.Background(), start, end)
	vfAssert(err == nil, "no-error")
	active := pre.registered && !pre.decrypted && !pre.fired && vfChain.expiry >= start
	nMatch := 0
	for _, e := range evs {
		te := e.(*TriggerEvent)
		vfAssert(active, "events-only-for-active-triggers")
		vfAssert(te.Log.BlockNumber >= start && te.Log.BlockNumber <= end && te.Log.BlockNumber <= vfChain.expiry, "event-log-in-range-and-not-after-expiry")
		vfAssert(te.Log.Address == vfChain.contract, "event-log-matches-the-definition")
		if vfChain.logInRange && te.Log.BlockNumber == vfChain.logBlock {
			nMatch++
		}
	}
	if active && vfChain.logInRange && vfChain.logBlock <= end && vfChain.logBlock <= vfChain.expiry {
		vfAssert(nMatch >= 1, "every-matching-log-in-time-is-returned")
		vfReach("match-returned")
	} else {
		vfReach("nothing-to-return")
	}
}

// ---- reorg rollback: what the abandoned blocks left in the tables is removed, exactly ----

//verif:stub (*github.com/shutter-network/rolling-shutter/rolling-shutter/keyperimpl/shutterservice/database.Queries).GetMultiEventSyncStatus sql=getMultiEventSyncStatus
func vfStubGetStatus16(q *database.Queries, ctx context.Context) (database.MultiEventSyncStatus, error) {
	if !vfTab.synced {
		return database.MultiEventSyncStatus{}, pgx.ErrNoRows
	}
	return database.MultiEventSyncStatus{BlockNumber: vfTab.syncedTo, BlockHash: vfRollback.statusHash}, nil
}

//verif:stub (*github.com/shutter-network/rolling-shutter/rolling-shutter/keyperimpl/shutterservice/database.Queries).DeleteFiredTriggersFromBlockNumber sql=deleteFiredTriggersFromBlockNumber
func vfStubDeleteFired16(q *database.Queries, ctx context.Context, from int64) error {
	if vfTab.fired && vfTab.firedBlock >= from { // DELETE ... WHERE block_number >= $1
		vfTab.fired = false
	}
	return nil
}

//verif:stub (*github.com/shutter-network/rolling-shutter/rolling-shutter/keyperimpl/shutterservice/database.Queries).DeleteEventTriggerRegisteredEventsFromBlockNumber sql=deleteEventTriggerRegisteredEventsFromBlockNumber
func vfStubDeleteReg16(q *database.Queries, ctx context.Context, from int64) error {
	if vfTab.registered && vfTab.regBlock >= from {
		vfTab.registered = false
	}
	return nil
}

var vfRollback struct{ statusHash []byte }

// The tables hold the Skolem trigger's registration row and fired row at arbitrary blocks up to
// the synced block; a header arrives. If it reveals a reorg, exactly the rows of the blocks above
// the rollback target are removed and the sync position is the target; otherwise nothing changes.
func H_C16_reorg_rollback() {
	t := &vfTab
	*t = vfTablesT{synced: true, syncedTo: vfI64("synced-to")}
	vfAssume(t.syncedTo >= 0 && t.syncedTo < 1<<40)
	vfRollback.statusHash = vfBytesN("status.hash", 32)
	t.registered, t.regBlock = vfBool("registered"), vfI64("reg.block")
	t.fired, t.firedBlock = vfBool("fired"), vfI64("fired.block")
	vfAssume(t.regBlock >= 0 && t.regBlock <= t.syncedTo && t.firedBlock >= 0 && t.firedBlock <= t.syncedTo)
	pre := *t
	header := &types.Header{Number: new(big.Int).SetUint64(vfU64("header.number")), ParentHash: vfAny[common.Hash]("header.parent")}
	vfAssume(header.Number.Uint64() < 1<<40)
	s := vfSyncer()
	s.AssumedReorgDepth = 1 + vfLen("assumed-depth-minus-1", 4)
	err := s.handlePotentialReorg(context.Background(), header)
	vfAssert(err == nil, "rollback-succeeds")
	isReorg := header.Number.Int64() == pre.syncedTo+1 && !bytes.Equal(header.ParentHash[:], vfRollback.statusHash)
	if !isReorg {
		vfAssert(*t == pre, "no-reorg-no-change")
		vfReach("no-reorg")
		return
	}
	target := pre.syncedTo - int64(s.AssumedReorgDepth)
	if target < 0 {
		target = 0
	}
	vfAssert(t.synced && t.syncedTo == target, "sync-position-is-the-rollback-target")
	vfAssert(t.registered == (pre.registered && pre.regBlock <= target), "registrations-of-abandoned-blocks-removed-others-kept")
	vfAssert(t.fired == (pre.fired && pre.firedBlock <= target), "fired-rows-of-abandoned-blocks-removed-others-kept")
	vfReach("rolled-back")
}

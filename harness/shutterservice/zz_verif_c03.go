package shutterservice

import (
	"bytes"
	"context"
	"crypto/ecdsa"
	"math/big"

	"github.com/ethereum/go-ethereum/common"
	"github.com/jackc/pgx/v4"
	pubsub "github.com/libp2p/go-libp2p-pubsub"

	"github.com/shutter-network/shutter/shlib/puredkg"
	"github.com/shutter-network/shutter/shlib/shcrypto"

	obskeyperdatabase "github.com/shutter-network/rolling-shutter/rolling-shutter/chainobserver/db/keyper"
	corekeyperdatabase "github.com/shutter-network/rolling-shutter/rolling-shutter/keyper/database"
	"github.com/shutter-network/rolling-shutter/rolling-shutter/keyper/epochkghandler"
	"github.com/shutter-network/rolling-shutter/rolling-shutter/keyperimpl/shutterservice/database"
	"github.com/shutter-network/rolling-shutter/rolling-shutter/keyperimpl/shutterservice/serviceztypes"
	"github.com/shutter-network/rolling-shutter/rolling-shutter/medley/configuration"
	"github.com/shutter-network/rolling-shutter/rolling-shutter/medley/encodeable/keys"
	"github.com/shutter-network/rolling-shutter/rolling-shutter/medley/identitypreimage"
	"github.com/shutter-network/rolling-shutter/rolling-shutter/medley/retry"
	"github.com/shutter-network/rolling-shutter/rolling-shutter/medley/service"
	"github.com/shutter-network/rolling-shutter/rolling-shutter/p2p"
	"github.com/shutter-network/rolling-shutter/rolling-shutter/p2pmsg"
	"github.com/shutter-network/rolling-shutter/rolling-shutter/shdb"
)

// C03 (Shutter service flavour, single-hop lemmas): what the service messaging middleware and
// handlers of an honest keyper emit is accepted by the validators of an honest peer, from an
// arbitrary state of the signature and key tables that satisfies the storage invariant.

type vfSigRowS struct {
	keyper int64
	hash   [32]byte
	sig    [65]byte
}

type vfKeyRowS struct {
	epochID [32]byte
	key     [2]byte
}

func vfAnd(a, b bool) bool { return vfIte(a, b, false) } // no short-circuit, no fork

var vfS3 struct {
	keypers   []common.Address
	threshold int32
	eon       uint64
	instance  uint64
	eonPK     uint64
	sigs      []vfSigRowS
	keys      []vfKeyRowS
	flagged   int
	maxKeys   uint64
}

type vfMessagingS struct {
	sent     []p2pmsg.Message
	handlers []p2p.MessageHandler
}

func (m *vfMessagingS) Start(context.Context, service.Runner) error { return nil }
func (m *vfMessagingS) SendMessage(ctx context.Context, msg p2pmsg.Message, _ ...retry.Option) error {
	m.sent = append(m.sent, msg)
	return nil
}
func (m *vfMessagingS) AddValidator(p2p.ValidatorFunc, ...p2pmsg.Message) {}
func (m *vfMessagingS) AddMessageHandler(mhs ...p2p.MessageHandler)        { m.handlers = append(m.handlers, mhs...) }

//verif:stub (*github.com/shutter-network/rolling-shutter/rolling-shutter/chainobserver/db/keyper.Queries).GetKeyperSetByKeyperConfigIndex sql=getKeyperSetByKeyperConfigIndex
func vfStubKeyperSetS3(q *obskeyperdatabase.Queries, ctx context.Context, idx int64) (obskeyperdatabase.KeyperSet, error) {
	if idx != int64(vfS3.eon) {
		return obskeyperdatabase.KeyperSet{}, pgx.ErrNoRows
	}
	return obskeyperdatabase.KeyperSet{KeyperConfigIndex: idx, Keypers: shdb.EncodeAddresses(vfS3.keypers), Threshold: vfS3.threshold}, nil
}

//verif:stub (*github.com/shutter-network/rolling-shutter/rolling-shutter/keyperimpl/shutterservice/database.Queries).InsertDecryptionSignature sql=insertDecryptionSignature
func vfStubInsertSigS3(q *database.Queries, ctx context.Context, arg database.InsertDecryptionSignatureParams) error {
	if arg.Eon != int64(vfS3.eon) {
		return nil
	}
	conflict := false // ON CONFLICT DO NOTHING, primary key (eon, keyper_index, identities_hash)
	for _, r := range vfS3.sigs {
		conflict = vfIte(vfAnd(r.keyper == arg.KeyperIndex, bytes.Equal(r.hash[:], arg.IdentitiesHash)), true, conflict)
	}
	if conflict {
		return nil
	}
	row := vfSigRowS{keyper: arg.KeyperIndex}
	vfAssert(len(arg.IdentitiesHash) == 32, "identities-hash-is-32-bytes")
	copy(row.hash[:], arg.IdentitiesHash)
	copy(row.sig[:], arg.Signature)
	vfS3.sigs = append(vfS3.sigs, row)
	return nil
}

//verif:stub (*github.com/shutter-network/rolling-shutter/rolling-shutter/keyperimpl/shutterservice/database.Queries).GetDecryptionSignatures sql=getDecryptionSignatures
func vfStubGetSigsS3(q *database.Queries, ctx context.Context, arg database.GetDecryptionSignaturesParams) ([]database.DecryptionSignature, error) {
	var rows []database.DecryptionSignature
	if arg.Eon != int64(vfS3.eon) {
		return rows, nil
	}
	// WHERE ... ORDER BY keyper_index ASC LIMIT $3; at most one row per (keyper, hash)
	for k := int64(0); k < int64(len(vfS3.keypers)); k++ {
		found := false
		var sig [65]byte
		for _, r := range vfS3.sigs {
			m := vfAnd(r.keyper == k, bytes.Equal(r.hash[:], arg.IdentitiesHash))
			found = vfIte(m, true, found)
			sig = vfIte(m, r.sig, sig)
		}
		if vfAnd(found, int32(len(rows)) < arg.Limit) {
			sg := sig
			rows = append(rows, database.DecryptionSignature{Eon: arg.Eon, KeyperIndex: k, IdentitiesHash: arg.IdentitiesHash, Signature: sg[:]})
		}
	}
	return rows, nil
}

//verif:stub (*github.com/shutter-network/rolling-shutter/rolling-shutter/keyperimpl/shutterservice/database.Queries).UpdateTimeBasedDecryptedFlags sql=updateTimeBasedDecryptedFlags
func vfStubFlagTimeS3(q *database.Queries, ctx context.Context, arg database.UpdateTimeBasedDecryptedFlagsParams) error {
	vfS3.flagged++
	return nil
}

//verif:stub (*github.com/shutter-network/rolling-shutter/rolling-shutter/keyperimpl/shutterservice/database.Queries).UpdateEventBasedDecryptedFlags sql=updateEventBasedDecryptedFlags
func vfStubFlagEventS3(q *database.Queries, ctx context.Context, arg database.UpdateEventBasedDecryptedFlagsParams) error {
	vfS3.flagged++
	return nil
}

//verif:stub (*github.com/shutter-network/rolling-shutter/rolling-shutter/keyper/database.Queries).GetDecryptionKey sql=getDecryptionKey
func vfStubGetKeyS3(q *corekeyperdatabase.Queries, ctx context.Context, arg corekeyperdatabase.GetDecryptionKeyParams) (corekeyperdatabase.DecryptionKey, error) {
	found := false
	var key [2]byte
	for _, r := range vfS3.keys {
		m := vfAnd(arg.Eon == int64(vfS3.eon), bytes.Equal(r.epochID[:], arg.EpochID))
		found = vfIte(m, true, found)
		key = vfIte(m, r.key, key)
	}
	if !found {
		return corekeyperdatabase.DecryptionKey{}, pgx.ErrNoRows
	}
	kk := key
	return corekeyperdatabase.DecryptionKey{Eon: arg.Eon, EpochID: arg.EpochID, DecryptionKey: kk[:]}, nil
}

//verif:stub github.com/ethereum/go-ethereum/crypto.Keccak256
func vfStubKeccakS3(data ...[]byte) []byte {
	acc := uint64(0)
	for _, d := range data {
		acc = vfUFU64("keccak-absorb", acc, d)
	}
	return vfUFBytesN("keccak-out", 32, acc)
}

//verif:stub github.com/ethereum/go-ethereum/crypto.Sign
func vfStubSignS3(hash []byte, key *ecdsa.PrivateKey) ([]byte, error) {
	k := key.D.Uint64()
	sig := vfUFBytesN("ecdsa-sign", 65, hash, k)
	vfAxiom(vfUFBool("sig-recoverable", hash, sig))
	vfAxiom(bytes.Equal(vfUFBytesN("addr-of-pub", 20, vfUFU64("sig-recover", hash, sig)), vfUFBytesN("addr-of-priv", 20, k)))
	return sig, nil
}

type vfCoreCfgS struct{ addr common.Address }

func (c vfCoreCfgS) GetAddress() common.Address      { return c.addr }
func (c vfCoreCfgS) GetInstanceID() uint64           { return vfS3.instance }
func (c vfCoreCfgS) GetMaxNumKeysPerMessage() uint64 { return vfS3.maxKeys }

//verif:stub (*github.com/shutter-network/rolling-shutter/rolling-shutter/keyper/database.Queries).GetBatchConfig sql=getBatchConfig
func vfStubBatchConfigS3(q *corekeyperdatabase.Queries, ctx context.Context, idx int32) (corekeyperdatabase.TendermintBatchConfig, error) {
	if int64(idx) != int64(vfS3.eon) {
		return corekeyperdatabase.TendermintBatchConfig{}, pgx.ErrNoRows
	}
	return corekeyperdatabase.TendermintBatchConfig{KeyperConfigIndex: idx, Keypers: shdb.EncodeAddresses(vfS3.keypers), Threshold: vfS3.threshold}, nil
}

//verif:stub (*github.com/shutter-network/rolling-shutter/rolling-shutter/keyper/database.Queries).GetDKGResultForKeyperConfigIndex sql=getDKGResultForKeyperConfigIndex
func vfStubDKGResultS3(q *corekeyperdatabase.Queries, ctx context.Context, idx int64) (corekeyperdatabase.DkgResult, error) {
	if idx != int64(vfS3.eon) {
		return corekeyperdatabase.DkgResult{}, pgx.ErrNoRows
	}
	return corekeyperdatabase.DkgResult{Eon: vfI64("dkg-eon"), Success: true, PureResult: []byte("pure")}, nil
}

//verif:stub github.com/shutter-network/rolling-shutter/rolling-shutter/shdb.DecodePureDKGResult
func vfStubDecodePureS3(b []byte) (*puredkg.Result, error) {
	return &puredkg.Result{NumKeypers: uint64(len(vfS3.keypers)), Threshold: uint64(vfS3.threshold), PublicKey: vfTagged[shcrypto.EonPublicKey](vfS3.eonPK)}, nil
}

func vfS3Setup(n int) {
	g := &vfS3
	g.keypers = nil
	for i := 0; i < n; i++ {
		a := vfAny[common.Address]("keyper")
		for _, o := range g.keypers {
			vfAssume(a != o)
		}
		g.keypers = append(g.keypers, a)
	}
	g.threshold = vfI32("threshold")
	vfAssume(g.threshold >= 1 && int(g.threshold) <= n)
	g.eon, g.instance, g.eonPK = vfU64("eon"), vfU64("instance"), vfU64("eonpk")
	vfAssume(g.eon < 1<<31)
	g.sigs, g.keys, g.flagged = nil, nil, 0
	g.maxKeys = vfU64("max-keys-per-message")
	vfAssume(g.maxKeys >= 1 && g.maxKeys <= 4)
}

func vfIdentitiesS(k int) []identitypreimage.IdentityPreimage {
	vfAssume(uint64(k) <= vfS3.maxKeys)
	var ids []identitypreimage.IdentityPreimage
	for i := 0; i < k; i++ {
		id := identitypreimage.IdentityPreimage(vfBytesN("identity", 32))
		if i > 0 {
			vfAssume(bytes.Compare(ids[i-1], id) <= 0)
		}
		ids = append(ids, id)
	}
	return ids
}

func vfHashOfS(ids []identitypreimage.IdentityPreimage) []byte {
	var bs [][]byte
	for _, id := range ids {
		bs = append(bs, id)
	}
	return vfStubKeccakS3(bs...)
}

func vfSigValidS(ids []identitypreimage.IdentityPreimage, sig []byte, signer common.Address) bool {
	d, err := serviceztypes.NewDecryptionSignatureData(vfS3.instance, vfS3.eon, ids)
	if err != nil {
		return false
	}
	h, err := d.HashTreeRoot()
	if err != nil {
		return false
	}
	a, ok := vfRecovered(h, sig)
	return vfAnd(ok, a == signer)
}

func vfServiceConfig(keyTag uint64) *Config {
	return &Config{
		InstanceID:           vfS3.instance,
		Chain:                &ChainConfig{Node: &configuration.EthnodeConfig{PrivateKey: &keys.ECDSAPrivate{Key: &ecdsa.PrivateKey{D: new(big.Int).SetUint64(keyTag)}}}},
		MaxNumKeysPerMessage: vfS3.maxKeys,
	}
}

func vfKeyCorrectS(r vfKeyRowS) bool {
	key, id := r.key[:], r.epochID[:]
	return vfAnd(vfUFBool("key-wellformed", key),
		vfAnd(vfUFBool("verify-key", vfUFU64("key-of-bytes", key), vfS3.eonPK, id),
			!vfUFBool("verify-key-errors", vfUFU64("key-of-bytes", key), vfS3.eonPK, id)))
}

// vfS3Tables: arbitrary signature and key tables under the storage invariant projected on the
// identities at hand: a row filed under their hash carries a valid signature of its keyper over
// exactly those identities (Keccak collision freedom).
func vfS3Tables(n int, ids []identitypreimage.IdentityPreimage) {
	g := &vfS3
	g.sigs, g.keys = nil, nil
	h := vfHashOfS(ids)
	for i := 0; i < vfParam("sigrows", 2); i++ {
		r := vfSigRowS{keyper: vfI64("row.keyper"), hash: vfAny[[32]byte]("row.hash"), sig: vfAny[[65]byte]("row.sig")}
		vfAssume(vfAnd(r.keyper >= 0, r.keyper < int64(n)))
		for _, o := range g.sigs {
			vfAssume(!vfAnd(o.keyper == r.keyper, o.hash == r.hash))
		}
		valid := false
		for j, kp := range g.keypers {
			valid = vfIte(r.keyper == int64(j), vfSigValidS(ids, r.sig[:], kp), valid)
		}
		vfAssume(vfIte(bytes.Equal(r.hash[:], h), valid, true))
		g.sigs = append(g.sigs, r)
	}
	for i := 0; i < vfParam("keyrows", 2); i++ {
		r := vfKeyRowS{epochID: vfAny[[32]byte]("keyrow.identity"), key: vfAny[[2]byte]("keyrow.key")}
		for _, o := range g.keys {
			vfAssume(o.epochID != r.epochID)
		}
		vfAssume(vfKeyCorrectS(r))
		g.keys = append(g.keys, r)
	}
}

func vfMemberS(name string) common.Address {
	a := vfAny[common.Address](name)
	in := false
	for _, k := range vfS3.keypers {
		in = vfIte(a == k, true, in)
	}
	vfAssume(in)
	return a
}

func vfAllAcceptS(m p2pmsg.Message) {
	g := &vfS3
	km := m.(*p2pmsg.DecryptionKeys)
	res, err := (&DecryptionKeysHandler{}).ValidateMessage(context.Background(), km)
	vfAssert(res == pubsub.ValidationAccept && err == nil, "keys-accepted-by-service-validator-of-honest-peer")
	ex := km.Extra.(*p2pmsg.DecryptionKeys_Service).Service
	vfAssert(int32(len(ex.SignerIndices)) == g.threshold, "keys-carry-threshold-signatures")
	core := epochkghandler.NewDecryptionKeyHandler(vfCoreCfgS{addr: vfMemberS("receiver")}, nil)
	saved := g.keys
	g.keys = nil
	res, err = core.ValidateMessage(context.Background(), km)
	g.keys = saved
	vfAssert(res == pubsub.ValidationAccept && err == nil, "keys-accepted-by-core-validator-of-honest-peer")
}

func H_C03_service_shares_accepted_by_peer() {
	n := 2 + vfLen("extra-keypers", vfParam("keypers", 3)-2)
	vfS3Setup(n)
	g := &vfS3
	p := vfLen("producer-index", n-1)
	keyTag := vfU64("producer-key")
	var pa common.Address
	copy(pa[:], vfUFBytesN("addr-of-priv", 20, keyTag))
	vfAssume(pa == g.keypers[p])
	k := 1 + vfLen("extra-identities", vfParam("identities", 2)-1)
	ids := vfIdentitiesS(k)
	orig := &p2pmsg.DecryptionKeyShares{InstanceId: g.instance, Eon: g.eon, KeyperIndex: uint64(p)}
	for _, id := range ids {
		orig.Shares = append(orig.Shares, &p2pmsg.KeyShare{IdentityPreimage: id, Share: vfBytesN("share", 2)})
	}
	tr := &vfMessagingS{}
	mw := NewMessagingMiddleware(tr, nil, vfServiceConfig(keyTag))
	err := mw.SendMessage(context.Background(), orig)
	vfAssert(err == nil && len(tr.sent) == 1, "shares-are-sent")
	if err != nil || len(tr.sent) != 1 {
		return
	}
	out := tr.sent[0].(*p2pmsg.DecryptionKeyShares)
	vfAssert(out.InstanceId == orig.InstanceId && out.Eon == orig.Eon && out.KeyperIndex == orig.KeyperIndex && vfDeepEq(out.Shares, orig.Shares), "middleware-keeps-the-core-fields")
	own := false
	for _, r := range g.sigs {
		own = vfIte(r.keyper == int64(p), true, own)
	}
	vfAssert(own, "own-signature-stored-before-sending")
	res, verr := (&DecryptionKeySharesHandler{}).ValidateMessage(context.Background(), out)
	vfAssert(res == pubsub.ValidationAccept && verr == nil, "service-shares-accepted-by-honest-peer")
	vfReach("accepted")
}

func H_C03_service_share_step_emits_accepted_keys() {
	n := 2 + vfLen("extra-keypers", vfParam("keypers", 3)-2)
	vfS3Setup(n)
	g := &vfS3
	k := 1 + vfLen("extra-identities", vfParam("identities", 2)-1)
	ids := vfIdentitiesS(k)
	vfS3Tables(n, ids)
	msg := &p2pmsg.DecryptionKeyShares{InstanceId: g.instance, Eon: g.eon, KeyperIndex: vfU64("msg.keyper"),
		Extra: &p2pmsg.DecryptionKeyShares_Service{Service: &p2pmsg.ShutterServiceDecryptionKeySharesExtra{Signature: vfBytesN("msg.signature", 65)}}}
	for _, id := range ids {
		msg.Shares = append(msg.Shares, &p2pmsg.KeyShare{IdentityPreimage: id, Share: vfBytesN("share", 2)})
	}
	res, _ := (&DecryptionKeySharesHandler{}).ValidateMessage(context.Background(), msg)
	vfAssume(res == pubsub.ValidationAccept)
	tr := &vfMessagingS{}
	mw := NewMessagingMiddleware(tr, nil, vfServiceConfig(vfU64("own-key")))
	mw.AddMessageHandler(&DecryptionKeySharesHandler{})
	out, err := tr.handlers[0].HandleMessage(context.Background(), msg)
	vfAssert(err == nil, "validated-service-shares-handled-without-error")
	h := vfHashOfS(ids)
	cnt := int32(0)
	for _, r := range g.sigs {
		cnt += vfIte(bytes.Equal(r.hash[:], h), int32(1), int32(0))
	}
	allKnown := true
	for _, id := range ids {
		known := false
		for _, kr := range g.keys {
			known = vfIte(bytes.Equal(kr.epochID[:], id), true, known)
		}
		allKnown = vfIte(known, allKnown, false)
	}
	vfAssert((len(out) == 1) == vfAnd(cnt >= g.threshold, allKnown), "service-keys-emitted-iff-threshold-signatures-and-all-keys-known")
	if len(out) != 1 {
		vfReach("no-keys-yet")
		return
	}
	vfAllAcceptS(out[0])
	vfReach("keys-accepted")
}

func H_C03_service_keys_middleware_output_accepted() {
	n := 2 + vfLen("extra-keypers", vfParam("keypers", 3)-2)
	vfS3Setup(n)
	g := &vfS3
	k := 1 + vfLen("extra-identities", vfParam("identities", 2)-1)
	ids := vfIdentitiesS(k)
	vfS3Tables(n, ids)
	orig := &p2pmsg.DecryptionKeys{InstanceId: g.instance, Eon: g.eon}
	for _, id := range ids {
		kr := vfKeyRowS{key: vfAny[[2]byte]("key")}
		copy(kr.epochID[:], id)
		vfAssume(vfKeyCorrectS(kr))
		orig.Keys = append(orig.Keys, &p2pmsg.Key{IdentityPreimage: id, Key: kr.key[:]})
	}
	tr := &vfMessagingS{}
	mw := NewMessagingMiddleware(tr, nil, vfServiceConfig(vfU64("own-key")))
	err := mw.SendMessage(context.Background(), orig)
	vfAssert(err == nil, "middleware-does-not-fail")
	h := vfHashOfS(ids)
	cnt := int32(0)
	for _, r := range g.sigs {
		cnt += vfIte(bytes.Equal(r.hash[:], h), int32(1), int32(0))
	}
	vfAssert((len(tr.sent) == 1) == (cnt >= g.threshold), "keys-sent-iff-threshold-signatures-on-file")
	if len(tr.sent) == 0 {
		vfReach("held-back")
		return
	}
	vfAllAcceptS(tr.sent[0])
	vfReach("sent-and-accepted")
}

package shutterservice

import (
	"bytes"
	"math/big"

	"github.com/ethereum/go-ethereum/common"
	"github.com/ethereum/go-ethereum/core/types"
)

// ---- symbolic definitions and logs ----

func vfPredicate(tag string) LogPredicate {
	p := LogPredicate{
		LogValueRef:    LogValueRef{Dynamic: vfBool(tag + ".dynamic"), Offset: vfU64(tag + ".offset")},
		ValuePredicate: ValuePredicate{Op: Op(vfU64(tag + ".op"))},
	}
	ni := vfLen(tag+".nint", 2)
	for i := 0; i < ni; i++ {
		if vfBool(tag + ".intarg.nil") {
			p.ValuePredicate.IntArgs = append(p.ValuePredicate.IntArgs, nil)
		} else {
			p.ValuePredicate.IntArgs = append(p.ValuePredicate.IntArgs, vfBig(tag+".intarg"))
		}
	}
	nb := vfLen(tag+".nbyte", 2)
	for i := 0; i < nb; i++ {
		p.ValuePredicate.ByteArgs = append(p.ValuePredicate.ByteArgs, vfBytes(tag+".bytearg", vfParam("bytearg", 40)))
	}
	return p
}

// vfValidShape: predicates that have the argument shape validation requires (the harnesses
// still assume the real Validate() accepts them): saves exploring shapes that are pruned anyway.
func vfValidShape(tag string, mode int) LogPredicate {
	p := LogPredicate{LogValueRef: LogValueRef{Dynamic: vfBool(tag + ".dynamic"), Offset: vfU64(tag + ".offset")}}
	switch mode {
	case 1: // topics and static data words only
		vfAssume(!p.LogValueRef.Dynamic)
	case 2: // dynamic data references only
		vfAssume(p.LogValueRef.Dynamic)
	case 3: // equality predicates on topics only (what the eth_getLogs filter is derived from)
		vfAssume(!p.LogValueRef.Dynamic && p.LogValueRef.Offset < 4)
		p.ValuePredicate.Op = BytesEq
		p.ValuePredicate.ByteArgs = [][]byte{vfBytesN(tag+".topicarg", 32)}
		return p
	}
	if vfBool(tag + ".bytes-op") {
		p.ValuePredicate.Op = BytesEq
		p.ValuePredicate.ByteArgs = [][]byte{vfBytes(tag+".bytearg", vfParam("bytearg", 40))}
	} else {
		p.ValuePredicate.Op = Op(vfU64(tag + ".op"))
		p.ValuePredicate.IntArgs = []*big.Int{vfBig(tag + ".intarg")}
	}
	return p
}

func vfValidDefinition(maxPreds, mode int) *EventTriggerDefinition {
	d := &EventTriggerDefinition{Contract: vfAny[common.Address]("def.contract")}
	n := vfLen("def.npreds", maxPreds)
	for i := 0; i < n; i++ {
		d.LogPredicates = append(d.LogPredicates, vfValidShape("pred", mode))
	}
	vfAssume(d.Validate() == nil)
	return d
}

func vfDefinition(maxPreds int) *EventTriggerDefinition {
	d := &EventTriggerDefinition{Contract: vfAny[common.Address]("def.contract")}
	n := vfLen("def.npreds", maxPreds)
	for i := 0; i < n; i++ {
		d.LogPredicates = append(d.LogPredicates, vfPredicate("pred"))
	}
	return d
}

func vfLog(dataMax int) *types.Log {
	l := &types.Log{Address: vfAny[common.Address]("log.address")}
	nt := vfLen("log.ntopics", 4)
	for i := 0; i < nt; i++ {
		l.Topics = append(l.Topics, vfAny[common.Hash]("log.topic"))
	}
	l.Data = vfBytes("log.data", dataMax)
	return l
}

// ---- (1) Validate = reference validity ----

func vfRefValidPredicate(p *LogPredicate) bool {
	if p.LogValueRef.Offset > 0xffffffff {
		return false
	}
	if p.LogValueRef.Dynamic && p.LogValueRef.Offset < 4 {
		return false
	}
	op := p.ValuePredicate.Op
	if op > 5 {
		return false
	}
	wantInt, wantBytes := 1, 0
	if op == BytesEq {
		wantInt, wantBytes = 0, 1
	}
	if len(p.ValuePredicate.IntArgs) != wantInt || len(p.ValuePredicate.ByteArgs) != wantBytes {
		return false
	}
	for _, a := range p.ValuePredicate.IntArgs {
		if a == nil || a.Sign() < 0 {
			return false
		}
	}
	// a topic is one 32-byte word: a BytesEq argument of another length can never match and no
	// node-side filter can be derived for it
	if op == BytesEq && p.LogValueRef.Offset < 4 && len(p.ValuePredicate.ByteArgs[0]) != 32 {
		return false
	}
	return true
}

func vfRefValid(d *EventTriggerDefinition) bool {
	for i := range d.LogPredicates {
		if !vfRefValidPredicate(&d.LogPredicates[i]) {
			return false
		}
	}
	for i := range d.LogPredicates {
		for j := 0; j < i; j++ {
			a, b := &d.LogPredicates[i], &d.LogPredicates[j]
			if a.LogValueRef.Offset < 4 && a.ValuePredicate.Op == BytesEq && b.ValuePredicate.Op == BytesEq && a.LogValueRef.Offset == b.LogValueRef.Offset {
				return false
			}
		}
	}
	return true
}

func H_C17_validate() {
	d := vfDefinition(vfParam("preds", 2))
	err := d.Validate()
	ref := vfRefValid(d)
	vfAssert((err == nil) == ref, "validate-equals-reference-validity")
	if err == nil {
		vfReach("valid")
	} else {
		vfReach("invalid")
	}
}

// ---- (2) Match is total and bounded on every log, for valid definitions ----

func H_C17_match_total() {
	dataMax := vfParam("data", 96)
	vfAllocBound(dataMax + 64) // work/allocation bounded by the log's size (+ two words)
	d := vfValidDefinition(vfParam("preds", 1), vfParam("mode", 0))
	l := vfLog(dataMax)
	m, err := d.Match(l)
	if err != nil {
		vfAssert(!m, "no-match-on-error")
	} else if m {
		vfReach("match")
	} else {
		vfReach("no-match")
	}
}

// ---- (3) Match = documented predicate semantics on well-formed logs ----

// vfRefValue reads the referenced value the way docs/event.md specifies, for logs in which every
// referenced word and slice lies inside the data; ok=false if the log is not well-formed for r.
func vfRefValue(r *LogValueRef, l *types.Log) (val []byte, ok bool) {
	if r.Offset < 4 {
		if r.Offset >= uint64(len(l.Topics)) {
			return nil, true // documented: missing topic reads as nil
		}
		return l.Topics[r.Offset][:], true
	}
	n := uint64(len(l.Data))
	start := (r.Offset - 4) * 32
	if !r.Dynamic {
		if start+32 > n || start+32 < start {
			if !vfTruncatedStatic {
				return nil, false
			}
			// documented on GetValue: a referenced word that exceeds the data is zero-padded on the
			// right to its full length (byte i of the word is data[start+i] if that exists, else 0)
			if vfParam("truncated_shapes", 0) == 1 && start < n {
				// quick tier: 1, 2 or 31 bytes of the word are present (or none); the thorough tier
				// explores every count
				vfAssume(n-start <= 2 || n-start == 31)
			}
			w := make([]byte, 32)
			for i := uint64(0); i < 32; i++ {
				if start+i >= start && start+i < n {
					w[i] = l.Data[start+i]
				}
			}
			return w, true
		}
		return l.Data[start : start+32], true
	}
	if start+32 > n {
		return nil, false
	}
	ioib := new(big.Int).SetBytes(l.Data[start : start+32])
	if !ioib.IsUint64() || ioib.Uint64() > n || n-ioib.Uint64() < 32 {
		return nil, false
	}
	o := ioib.Uint64()
	ln := new(big.Int).SetBytes(l.Data[o : o+32])
	if !ln.IsUint64() || ln.Uint64() > n-o-32 {
		return nil, false
	}
	return l.Data[o+32 : o+32+ln.Uint64()], true
}

func vfRefPredicate(p *ValuePredicate, val []byte) bool {
	if p.Op == BytesEq {
		return bytes.Equal(val, p.ByteArgs[0])
	}
	v := new(big.Int).SetBytes(val)
	c := v.Cmp(p.IntArgs[0])
	switch p.Op {
	case UintLt:
		return c < 0
	case UintLte:
		return c <= 0
	case UintEq:
		return c == 0
	case UintGt:
		return c > 0
	}
	return c >= 0
}

// vfTruncatedStatic: the reference also covers static data words that lie partly or wholly beyond
// the end of the data (zero padding on the right, as documented on GetValue).
var vfTruncatedStatic bool

func H_C17_match_reference() {
	vfTruncatedStatic = vfParam("truncated", 0) == 1
	dataMax := vfParam("data", 96)
	vfAllocBound(dataMax + 64)
	d := vfValidDefinition(vfParam("preds", 1), vfParam("mode", 0))
	l := vfLog(dataMax)
	want := l.Address == d.Contract
	for i := range d.LogPredicates {
		p := &d.LogPredicates[i]
		val, ok := vfRefValue(&p.LogValueRef, l)
		vfAssume(ok) // well-formed data only
		// stated bound: referenced values are at most vallen bytes (math/big model is 320 bits wide)
		vfAssume(len(val) <= vfParam("vallen", 32))
		if !vfRefPredicate(&p.ValuePredicate, val) {
			want = false
		}
	}
	got, err := d.Match(l)
	vfAssert(err == nil, "no-error-for-valid-definition")
	vfAssert(got == want, "match-equals-documented-predicate")
	if got {
		vfReach("match")
	} else {
		vfReach("no-match")
	}
}

// ---- (4) a filter can be derived for every valid definition, and never hides a matching log ----

func H_C17_filter() {
	dataMax := vfParam("data", 64)
	vfAllocBound(dataMax + 64)
	d := vfValidDefinition(vfParam("preds", 2), vfParam("mode", 0))
	q, err := d.ToFilterQuery()
	vfAssert(err == nil, "filter-derivable-for-valid-definition")
	if err != nil {
		return
	}
	l := vfLog(dataMax)
	m, merr := d.Match(l)
	if merr != nil || !m {
		vfReach("no-match")
		return
	}
	vfReach("match")
	// eth_getLogs semantics
	addrOK := len(q.Addresses) == 0
	for _, a := range q.Addresses {
		if a == l.Address {
			addrOK = true
		}
	}
	vfAssert(addrOK, "matching-log-passes-address-filter")
	for i, alts := range q.Topics {
		if len(alts) == 0 {
			continue
		}
		vfAssert(i < len(l.Topics), "matching-log-has-filtered-topic")
		if i >= len(l.Topics) {
			continue
		}
		hit := false
		for _, h := range alts {
			if h == l.Topics[i] {
				hit = true
			}
		}
		vfAssert(hit, "matching-log-passes-topic-filter")
	}
}

// ---- (3b) the value predicate itself on values wider than a word ----
//
// A dynamic reference may select a byte string of any length; the integer operators compare it as
// one big-endian unsigned integer of that length (docs/event.md), not as its low 256 bits. The
// log parsing is left out here (it is the subject of the harnesses above), so the value can range
// over the full width of the big.Int model.
func H_C17_value_predicate_wide() {
	p := vfValidShape("pred", 2)
	vfAssume(p.Validate() == nil)
	val := vfBytes("value", vfParam("vallen", 40))
	got, err := p.ValuePredicate.Match(val)
	vfAssert(err == nil, "no-error-for-valid-predicate")
	vfAssert(got == vfRefPredicate(&p.ValuePredicate, val), "predicate-equals-documented-semantics-on-values-of-any-length")
	if len(val) > 32 {
		vfReach("wider-than-a-word")
	}
}

package shutterservice

import (
	"context"

	"github.com/ethereum/go-ethereum/accounts/abi/bind"
	"github.com/ethereum/go-ethereum/core/types"

	registryBindings "github.com/shutter-network/contracts/v2/bindings/shutterregistry"
	triggerRegistryV1Bindings "github.com/shutter-network/contracts/v2/bindings/shuttereventtriggerregistryv1"
)

// C15/C16 (fetch step): the functions that ask the node for contract events query exactly the
// range [start, end] they were given and return every event the iterator yields, in order, or the
// iterator's error. The abigen filter call and iterator are stubs: the filter records its options,
// the iterator yields k arbitrary events and then an arbitrary final error.

var vfFetch struct {
	start    uint64
	end      uint64
	endSet   bool
	calls    int
	fail     bool
	k, i     int
	iterErr  bool
	regEvs   []*registryBindings.ShutterregistryIdentityRegistered
	trigEvs  []*triggerRegistryV1Bindings.Shuttereventtriggerregistryv1EventTriggerRegistered
}

func vfRecordOpts(opts *bind.FilterOpts) {
	vfFetch.calls++
	vfFetch.start = opts.Start
	vfFetch.endSet = opts.End != nil
	if opts.End != nil {
		vfFetch.end = *opts.End
	}
}

//verif:stub (*github.com/shutter-network/contracts/v2/bindings/shuttereventtriggerregistryv1.Shuttereventtriggerregistryv1Filterer).FilterEventTriggerRegistered
func vfStubFilterTrig(f *triggerRegistryV1Bindings.Shuttereventtriggerregistryv1Filterer, opts *bind.FilterOpts, eon []uint64) (*triggerRegistryV1Bindings.Shuttereventtriggerregistryv1EventTriggerRegisteredIterator, error) {
	vfRecordOpts(opts)
	vfAssert(len(eon) == 0, "registrations-of-every-eon-are-requested")
	if vfFetch.fail {
		return nil, vfErr("rpc")
	}
	return &triggerRegistryV1Bindings.Shuttereventtriggerregistryv1EventTriggerRegisteredIterator{}, nil
}

//verif:stub (*github.com/shutter-network/contracts/v2/bindings/shuttereventtriggerregistryv1.Shuttereventtriggerregistryv1EventTriggerRegisteredIterator).Next
func vfStubTrigNext(it *triggerRegistryV1Bindings.Shuttereventtriggerregistryv1EventTriggerRegisteredIterator) bool {
	if vfFetch.i >= vfFetch.k {
		return false
	}
	it.Event = vfFetch.trigEvs[vfFetch.i]
	vfFetch.i++
	return true
}

//verif:stub (*github.com/shutter-network/contracts/v2/bindings/shuttereventtriggerregistryv1.Shuttereventtriggerregistryv1EventTriggerRegisteredIterator).Error
func vfStubTrigErr(it *triggerRegistryV1Bindings.Shuttereventtriggerregistryv1EventTriggerRegisteredIterator) error {
	if vfFetch.iterErr {
		return vfErr("iterator")
	}
	return nil
}

//verif:stub (*github.com/shutter-network/contracts/v2/bindings/shutterregistry.ShutterregistryFilterer).FilterIdentityRegistered
func vfStubFilterReg(f *registryBindings.ShutterregistryFilterer, opts *bind.FilterOpts) (*registryBindings.ShutterregistryIdentityRegisteredIterator, error) {
	vfRecordOpts(opts)
	if vfFetch.fail {
		return nil, vfErr("rpc")
	}
	return &registryBindings.ShutterregistryIdentityRegisteredIterator{}, nil
}

//verif:stub (*github.com/shutter-network/contracts/v2/bindings/shutterregistry.ShutterregistryIdentityRegisteredIterator).Next
func vfStubRegNext(it *registryBindings.ShutterregistryIdentityRegisteredIterator) bool {
	if vfFetch.i >= vfFetch.k {
		return false
	}
	it.Event = vfFetch.regEvs[vfFetch.i]
	vfFetch.i++
	return true
}

//verif:stub (*github.com/shutter-network/contracts/v2/bindings/shutterregistry.ShutterregistryIdentityRegisteredIterator).Error
func vfStubRegErr(it *registryBindings.ShutterregistryIdentityRegisteredIterator) error {
	if vfFetch.iterErr {
		return vfErr("iterator")
	}
	return nil
}

func vfFetchSetup() (start, end uint64) {
	start, end = vfU64("start"), vfU64("end")
	vfFetch.calls, vfFetch.i, vfFetch.endSet = 0, 0, false
	vfFetch.fail, vfFetch.iterErr = vfBool("filter-call-fails"), vfBool("iterator-fails")
	vfFetch.k = vfLen("events", vfParam("events", 3))
	vfFetch.regEvs, vfFetch.trigEvs = nil, nil
	for i := 0; i < vfFetch.k; i++ {
		vfFetch.regEvs = append(vfFetch.regEvs, &registryBindings.ShutterregistryIdentityRegistered{Eon: vfU64("event.eon"), Raw: types.Log{BlockNumber: vfU64("event.block")}})
		vfFetch.trigEvs = append(vfFetch.trigEvs, &triggerRegistryV1Bindings.Shuttereventtriggerregistryv1EventTriggerRegistered{Eon: vfU64("event.eon"), Raw: types.Log{BlockNumber: vfU64("event.block")}})
	}
	return
}

func H_C16_registration_fetch_range() {
	start, end := vfFetchSetup()
	p := &EventTriggerRegisteredEventProcessor{Contract: &triggerRegistryV1Bindings.Shuttereventtriggerregistryv1{}}
	evs, err := p.FetchEvents(context.Background(), start, end)
	vfAssert(vfFetch.calls == 1 && vfFetch.start == start && vfFetch.endSet && vfFetch.end == end, "node-is-asked-for-exactly-the-given-block-range")
	if vfFetch.fail || vfFetch.iterErr {
		vfAssert(err != nil, "fetch-failure-is-reported")
		vfReach("failed")
		return
	}
	vfAssert(err == nil && len(evs) == vfFetch.k, "every-event-of-the-range-is-returned")
	for i := range evs {
		if i < vfFetch.k {
			vfAssert(evs[i] == Event(vfFetch.trigEvs[i]), "events-in-log-order")
		}
	}
	vfReach("fetched")
}

func H_C15_registry_fetch_range() {
	start, end := vfFetchSetup()
	s := &RegistrySyncer{Contract: &registryBindings.Shutterregistry{}}
	evs, err := s.fetchEvents(context.Background(), start, end)
	vfAssert(vfFetch.calls == 1 && vfFetch.start == start && vfFetch.endSet && vfFetch.end == end, "node-is-asked-for-exactly-the-given-block-range")
	if vfFetch.fail || vfFetch.iterErr {
		vfAssert(err != nil, "fetch-failure-is-reported")
		vfReach("failed")
		return
	}
	vfAssert(err == nil && len(evs) == vfFetch.k, "every-event-of-the-range-is-returned")
	for i := range evs {
		if i < vfFetch.k {
			vfAssert(evs[i] == vfFetch.regEvs[i], "events-in-log-order")
		}
	}
	vfReach("fetched")
}

package shutterservice

import (
	"github.com/ethereum/go-ethereum/common"
	pubsub "github.com/libp2p/go-libp2p-pubsub"

	obskeyperdatabase "github.com/shutter-network/rolling-shutter/rolling-shutter/chainobserver/db/keyper"
	"github.com/shutter-network/rolling-shutter/rolling-shutter/keyperimpl/shutterservice/serviceztypes"
	"github.com/shutter-network/rolling-shutter/rolling-shutter/p2pmsg"
	"github.com/shutter-network/rolling-shutter/rolling-shutter/shdb"
)

// C06 (Shutter service): same rule over (instance, eon, identities), except that a message with
// neither signers nor signatures is admitted.
func H_C06_service_signatures() {
	n := 1 + vfLen("nkeypers", vfParam("keypers", 3)-1)
	var addrs []common.Address
	ks := &obskeyperdatabase.KeyperSet{Threshold: vfI32("threshold")}
	for i := 0; i < n; i++ {
		a := vfAny[common.Address]("keyper")
		addrs = append(addrs, a)
		ks.Keypers = append(ks.Keypers, shdb.EncodeAddress(a))
	}
	extra := &p2pmsg.ShutterServiceDecryptionKeysExtra{}
	ns := vfLen("nsigners", n+1)
	for i := 0; i < ns; i++ {
		extra.SignerIndices = append(extra.SignerIndices, vfU64("signer"))
	}
	nsig := vfLen("nsignatures", n+1)
	for i := 0; i < nsig; i++ {
		extra.Signature = append(extra.Signature, vfBytes("signature", 2))
	}
	keys := &p2pmsg.DecryptionKeys{InstanceId: vfU64("instance"), Eon: vfU64("eon")}
	nk := 1 + vfLen("nkeys", vfParam("keys", 2)-1)
	for i := 0; i < nk; i++ {
		id := vfBytesN("identity", 32)
		if vfBool("identity-short") {
			id = id[:31]
		}
		keys.Keys = append(keys.Keys, &p2pmsg.Key{IdentityPreimage: id, Key: vfBytes("key", 2)})
	}

	res, _ := ValidateDecryptionKeysSignatures(keys, extra, ks)

	ref := false
	if ns == 0 && nsig == 0 {
		ref = true // documented exception
		vfReach("empty-case")
	} else {
		ref = int32(ns) == ks.Threshold && nsig == ns
		for i := 0; i < ns && ref; i++ {
			if extra.SignerIndices[i] >= uint64(n) || (i > 0 && extra.SignerIndices[i] <= extra.SignerIndices[i-1]) {
				ref = false
			}
		}
		if ref {
			tuple := &serviceztypes.DecryptionSignatureData{InstanceID: keys.InstanceId, Eon: keys.Eon}
			for _, k := range keys.Keys {
				tuple.IdentityPreimages = append(tuple.IdentityPreimages, serviceztypes.IdentityPreimage{Bytes: k.IdentityPreimage})
			}
			h, err := tuple.HashTreeRoot()
			if err != nil {
				ref = false
			} else {
				for i := 0; i < ns && ref; i++ {
					a, ok := vfRecovered(h, extra.Signature[i])
					if !ok || a != addrs[extra.SignerIndices[i]] {
						ref = false
					}
				}
			}
		}
	}
	vfAssert(res == pubsub.ValidationAccept || res == pubsub.ValidationReject, "verdict-is-accept-or-reject")
	vfAssert((res == pubsub.ValidationAccept) == ref, "accept-iff-threshold-of-genuine-signatures")
	if res == pubsub.ValidationAccept {
		vfReach("accept")
		if ns > 0 {
			vfReach("accept-with-signers")
		}
	} else {
		vfReach("reject")
	}
}

package dkgphase

import "github.com/shutter-network/shutter/shlib/puredkg"

// C07 (1): the DKG phase is a pure, monotone function of the block height: Off below the start
// height, then three phases of exactly l blocks each, then Finalized.
func H_C07_phase_function() {
	l := vfI64("phase-length")
	start := vfI64("eon-start")
	h := vfI64("height")
	vfAssume(l >= 1 && l < 1<<60 && start >= 0 && start < 1<<61 && h >= 0 && h < 1<<62)
	pl := NewConstantPhaseLength(l)
	p := pl.GetPhaseAtHeight(h, start)
	var want puredkg.Phase
	switch {
	case h < start:
		want = puredkg.Off
		vfReach("off")
	case h < start+l:
		want = puredkg.Dealing
		vfReach("dealing")
	case h < start+2*l:
		want = puredkg.Accusing
		vfReach("accusing")
	case h < start+3*l:
		want = puredkg.Apologizing
		vfReach("apologizing")
	default:
		want = puredkg.Finalized
		vfReach("finalized")
	}
	vfAssert(p == want, "phase-equals-reference")
	// monotone in the height
	h2 := vfI64("height2")
	vfAssume(h2 >= h && h2 < 1<<62)
	vfAssert(pl.GetPhaseAtHeight(h2, start) >= p, "phase-monotone-in-height")
}

package smobserver

import (
	"context"
	"crypto/ed25519"
	"math/big"

	"github.com/ethereum/go-ethereum/common"
	"github.com/ethereum/go-ethereum/crypto/ecies"

	"github.com/shutter-network/shutter/shlib/puredkg"

	"github.com/shutter-network/rolling-shutter/rolling-shutter/keyper/dkgphase"
	"github.com/shutter-network/rolling-shutter/rolling-shutter/keyper/shutterevents"
)

// C07 (3): honest keypers feed identical public inputs to the DKG library. The same chain event
// is handled by two keypers with different own addresses and the same keyper list: the recorded
// calls into puredkg for commitments, accusations and apologies must be identical; evaluations
// reach only the addressed receiver; events from non-members or in the wrong phase cause no call.

type vfCall struct {
	kind             int
	eon, a, b        uint64
	evalTag          uint64
}

var vfCalls []vfCall
var vfPureErr bool

//verif:stub (*github.com/shutter-network/shutter/shlib/puredkg.PureDKG).HandlePolyCommitmentMsg
func vfStubCommit(p *puredkg.PureDKG, m puredkg.PolyCommitmentMsg) error {
	vfCalls = append(vfCalls, vfCall{kind: 1, eon: m.Eon, a: m.Sender})
	if vfPureErr {
		return vfErr("pure")
	}
	return nil
}

//verif:stub (*github.com/shutter-network/shutter/shlib/puredkg.PureDKG).HandleAccusationMsg
func vfStubAccuse(p *puredkg.PureDKG, m puredkg.AccusationMsg) error {
	vfCalls = append(vfCalls, vfCall{kind: 2, eon: m.Eon, a: m.Accuser, b: m.Accused})
	if vfPureErr {
		return vfErr("pure")
	}
	return nil
}

//verif:stub (*github.com/shutter-network/shutter/shlib/puredkg.PureDKG).HandleApologyMsg
func vfStubApology(p *puredkg.PureDKG, m puredkg.ApologyMsg) error {
	vfCalls = append(vfCalls, vfCall{kind: 3, eon: m.Eon, a: m.Accuser, b: m.Accused, evalTag: m.Eval.Uint64()})
	if vfPureErr {
		return vfErr("pure")
	}
	return nil
}

//verif:stub (*github.com/shutter-network/shutter/shlib/puredkg.PureDKG).HandlePolyEvalMsg
func vfStubEval(p *puredkg.PureDKG, m puredkg.PolyEvalMsg) error {
	vfCalls = append(vfCalls, vfCall{kind: 4, eon: m.Eon, a: m.Sender, b: m.Receiver, evalTag: m.Eval.Uint64()})
	return nil
}

//verif:stub (*github.com/ethereum/go-ethereum/crypto/ecies.PrivateKey).Decrypt
func vfStubDecrypt(k *ecies.PrivateKey, c, s1, s2 []byte) ([]byte, error) {
	if vfUFBool("decrypt-fails", c) {
		return nil, vfErr("decrypt")
	}
	return vfUFBytesN("decrypted", 2, c), nil
}

type vfConf struct{ addr common.Address }

func (c vfConf) GetAddress() common.Address             { return c.addr }
func (c vfConf) GetDKGPhaseLength() *dkgphase.PhaseLength { return dkgphase.NewConstantPhaseLength(30) }
func (c vfConf) GetValidatorPublicKey() ed25519.PublicKey { return nil }
func (c vfConf) GetEncryptionKey() *ecies.PrivateKey      { return &ecies.PrivateKey{} }

func vfState(own common.Address, eon uint64, keypers []common.Address, phase puredkg.Phase) *ShuttermintState {
	st := NewShuttermintState(vfConf{addr: own})
	st.dkg[eon] = &ActiveDKG{pure: &puredkg.PureDKG{Phase: phase, Eon: eon, NumKeypers: uint64(len(keypers))}, keypers: keypers}
	return st
}

func vfKeypers(n int) []common.Address {
	var ks []common.Address
	for i := 0; i < n; i++ {
		a := vfAny[common.Address]("keyper")
		for _, o := range ks {
			vfAssume(a != o)
		}
		ks = append(ks, a)
	}
	return ks
}

func vfIndex(ks []common.Address, a common.Address) (uint64, bool) {
	for i, k := range ks {
		if k == a {
			return uint64(i), true
		}
	}
	return 0, false
}

func vfAddrs(tag string, max int) []common.Address {
	n := vfLen(tag+".n", max)
	out := []common.Address{}
	for i := 0; i < n; i++ {
		out = append(out, vfAny[common.Address](tag))
	}
	return out
}

func H_C07_public_inputs_agree() {
	ks := vfKeypers(vfParam("keypers", 3))
	eon := vfU64("eon")
	phase := puredkg.Phase(vfLen("phase", 4))
	vfPureErr = vfBool("library-refuses")
	a, b := ks[0], ks[1] // two honest keypers
	evEon := vfU64("event.eon")
	sender := vfAny[common.Address]("event.sender")
	kind := vfLen("event.kind", 2)
	var run func(st *ShuttermintState) []vfCall
	switch kind {
	case 0:
		e := &shutterevents.PolyCommitment{Eon: evEon, Sender: sender}
		run = func(st *ShuttermintState) []vfCall {
			vfCalls = nil
			_ = st.handlePolyCommitment(context.Background(), nil, e)
			return vfCalls
		}
	case 1:
		e := &shutterevents.Accusation{Eon: evEon, Sender: sender, Accused: vfAddrs("event.accused", vfParam("list", 2))}
		run = func(st *ShuttermintState) []vfCall {
			vfCalls = nil
			_ = st.handleAccusation(context.Background(), nil, e)
			return vfCalls
		}
	default:
		e := &shutterevents.Apology{Eon: evEon, Sender: sender, Accusers: vfAddrs("event.accuser", vfParam("list", 2))}
		for range e.Accusers { // shuttermint admits only apologies with one evaluation per accuser
			e.PolyEval = append(e.PolyEval, new(big.Int).SetUint64(vfU64("event.eval")))
		}
		run = func(st *ShuttermintState) []vfCall {
			vfCalls = nil
			_ = st.handleApology(context.Background(), nil, e)
			return vfCalls
		}
	}
	ca := run(vfState(a, eon, ks, phase))
	cb := run(vfState(b, eon, ks, phase))
	vfAssert(vfDeepEq(ca, cb), "both-keypers-feed-identical-inputs-to-the-dkg")
	si, member := vfIndex(ks, sender)
	if evEon != eon || !member {
		vfAssert(len(ca) == 0, "no-input-from-foreign-eon-or-non-member")
		vfReach("ignored")
	}
	if kind == 1 && phase != puredkg.Accusing || kind == 2 && phase != puredkg.Apologizing {
		vfAssert(len(ca) == 0, "no-input-in-the-wrong-phase")
	}
	for _, c := range ca {
		vfReach("input-recorded")
		vfAssert(c.eon == eon, "input-for-this-eon")
		switch c.kind {
		case 1:
			vfAssert(c.a == si, "commitment-sender-index-is-position-in-keyper-list")
		case 2:
			vfAssert(c.a == si && c.b < uint64(len(ks)), "accuser-index-is-sender-position")
		case 3:
			vfAssert(c.b == si && c.a < uint64(len(ks)), "accused-index-is-sender-position")
		}
	}
}

func H_C07_polyeval_receiver_only() {
	ks := vfKeypers(vfParam("keypers", 3))
	eon := vfU64("eon")
	own := vfAny[common.Address]("own")
	e := &shutterevents.PolyEval{Eon: vfU64("event.eon"), Sender: vfAny[common.Address]("event.sender"), Receivers: vfAddrs("event.receiver", vfParam("list", 2))}
	for range e.Receivers { // shuttermint admits only evaluations with one ciphertext per receiver
		e.EncryptedEvals = append(e.EncryptedEvals, vfBytes("event.ciphertext", 2))
	}
	vfCalls = nil
	st := vfState(own, eon, ks, puredkg.Dealing)
	_ = st.handlePolyEval(context.Background(), nil, e)
	si, senderMember := vfIndex(ks, e.Sender)
	oi, ownMember := vfIndex(ks, own)
	addressed := false
	for _, r := range e.Receivers {
		if r == own {
			addressed = true
		}
	}
	if len(vfCalls) > 0 {
		vfReach("evaluation-delivered")
		vfAssert(len(vfCalls) == 1 && e.Eon == eon && senderMember && ownMember && addressed && e.Sender != own, "evaluation-reaches-only-the-addressed-member")
		vfAssert(vfCalls[0].a == si && vfCalls[0].b == oi, "sender-and-receiver-indices-are-list-positions")
	} else {
		vfReach("evaluation-ignored")
	}
}

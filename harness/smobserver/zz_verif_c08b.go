package smobserver

import (
	"bytes"
	"context"
	"io"
	"math/big"

	"github.com/ethereum/go-ethereum/common"
	"github.com/ethereum/go-ethereum/crypto/ecies"
	"github.com/jackc/pgconn"
	"github.com/jackc/pgx/v4"

	"github.com/shutter-network/shutter/shlib/puredkg"
	"github.com/shutter-network/shutter/shlib/shcrypto"

	"github.com/shutter-network/rolling-shutter/rolling-shutter/keyper/database"
	"github.com/shutter-network/rolling-shutter/rolling-shutter/keyper/shutterevents"
	"github.com/shutter-network/rolling-shutter/rolling-shutter/shdb"
	"github.com/shutter-network/rolling-shutter/rolling-shutter/shmsg"
)

// C08 (cache write-back): the in-memory DKG object is a cache of the puredkg table. Whenever an
// event makes the DKG library accept an input (the object changes), the eon must be written back
// by the Save of the same block transaction; otherwise a crash after the block loses the input
// although the sync position has moved past it.

var vfSaved []int64

// gob encoding of the DKG object is outside the encoder: the stub keeps a snapshot of the
// object's exported scalar fields under a one-byte handle, the decode stub returns it
var vfPureStore []puredkg.PureDKG

//verif:stub github.com/shutter-network/rolling-shutter/rolling-shutter/shdb.EncodePureDKG
func vfStubEncodePure(p *puredkg.PureDKG) ([]byte, error) {
	vfPureStore = append(vfPureStore, puredkg.PureDKG{Phase: p.Phase, Eon: p.Eon, NumKeypers: p.NumKeypers, Threshold: p.Threshold, Keyper: p.Keyper})
	return []byte{byte(len(vfPureStore) - 1)}, nil
}

//verif:stub github.com/shutter-network/rolling-shutter/rolling-shutter/shdb.DecodePureDKG
func vfStubDecodePure(b []byte) (*puredkg.PureDKG, error) {
	c := vfPureStore[int(b[0])]
	return &c, nil
}

var vfPureRows []database.Puredkg // the puredkg table (upsert by eon)

//verif:stub (*github.com/shutter-network/rolling-shutter/rolling-shutter/keyper/database.Queries).InsertPureDKG sql=insertPureDKG
func vfStubInsertPure(q *database.Queries, ctx context.Context, arg database.InsertPureDKGParams) error {
	vfSaved = append(vfSaved, arg.Eon)
	for i := range vfPureRows {
		if vfPureRows[i].Eon == arg.Eon {
			vfPureRows[i].Puredkg = arg.Puredkg
			return nil
		}
	}
	vfPureRows = append(vfPureRows, database.Puredkg{Eon: arg.Eon, Puredkg: arg.Puredkg})
	return nil
}

func H_C08_cache_written_back_when_changed() {
	ks := vfKeypers(vfParam("keypers", 3))
	eon := vfU64("eon")
	vfAssume(eon < 1<<62)
	phase := puredkg.Phase(vfLen("phase", 4))
	vfPureErr = vfBool("library-refuses")
	own := vfAny[common.Address]("own")
	evEon := vfU64("event.eon")
	sender := vfAny[common.Address]("event.sender")
	var ev shutterevents.IEvent
	switch vfLen("event.kind", 3) {
	case 0:
		ev = &shutterevents.PolyCommitment{Eon: evEon, Sender: sender}
	case 1:
		ev = &shutterevents.Accusation{Eon: evEon, Sender: sender, Accused: vfAddrs("event.accused", vfParam("list", 2))}
	case 2:
		e := &shutterevents.Apology{Eon: evEon, Sender: sender, Accusers: vfAddrs("event.accuser", vfParam("list", 2))}
		for range e.Accusers {
			e.PolyEval = append(e.PolyEval, new(big.Int).SetUint64(vfU64("event.eval")))
		}
		ev = e
	default:
		e := &shutterevents.PolyEval{Eon: evEon, Sender: sender, Receivers: vfAddrs("event.receiver", vfParam("list", 2))}
		for range e.Receivers {
			e.EncryptedEvals = append(e.EncryptedEvals, vfBytes("event.ciphertext", 2))
		}
		ev = e
	}
	st := vfState(own, eon, ks, phase) // freshly loaded: nothing dirty
	vfCalls, vfSaved = nil, nil
	err := st.HandleEvent(context.Background(), nil, ev)
	if err != nil {
		vfReach("handler-error") // the block transaction is rolled back and the cache discarded (H_C08_block_transaction)
		return
	}
	changed := false
	for _, c := range vfCalls {
		if c.kind == 4 || !vfPureErr {
			changed = true
		}
	}
	serr := st.Save(context.Background(), nil)
	vfAssert(serr == nil, "save-succeeds")
	if changed {
		vfAssert(len(vfSaved) == 1 && vfSaved[0] == int64(eon), "changed-dkg-object-is-written-back-in-the-same-block")
		vfReach("written-back")
	} else {
		vfReach("unchanged")
	}
	vfAssert(!st.dkg[eon].dirty, "nothing-dirty-after-save")
}

// ---- phase transitions ----

var vfPh struct {
	scheduled  []*shmsg.Message // queued shuttermint messages, in order
	commitMsgs []*shmsg.Message // polynomial commitment messages built
	polyEvals int
	deleted   []int64 // DeletePureDKG calls
	results   []int64 // InsertDKGResult calls
	computeOK bool
	starts    [4]int // calls of StartPhase1Dealing / 2 / 3 / Finalize
}

//verif:stub (*github.com/shutter-network/shutter/shlib/puredkg.PureDKG).StartPhase1Dealing
func vfStubStart1(p *puredkg.PureDKG) (puredkg.PolyCommitmentMsg, []puredkg.PolyEvalMsg, error) {
	vfPh.starts[0]++
	p.Phase = puredkg.Dealing
	var evals []puredkg.PolyEvalMsg
	for i := uint64(0); i < p.NumKeypers; i++ {
		evals = append(evals, puredkg.PolyEvalMsg{Eon: p.Eon, Sender: p.Keyper, Receiver: i, Eval: new(big.Int).SetUint64(vfU64("own-eval"))})
	}
	return puredkg.PolyCommitmentMsg{Eon: p.Eon, Sender: p.Keyper, Gammas: &shcrypto.Gammas{}}, evals, nil
}

//verif:stub (*github.com/shutter-network/shutter/shlib/puredkg.PureDKG).StartPhase2Accusing
func vfStubStart2(p *puredkg.PureDKG) []puredkg.AccusationMsg {
	vfPh.starts[1]++
	p.Phase = puredkg.Accusing
	var out []puredkg.AccusationMsg
	if vfBool("accuses-someone") {
		out = append(out, puredkg.AccusationMsg{Eon: p.Eon, Accuser: p.Keyper, Accused: 0})
	}
	return out
}

//verif:stub (*github.com/shutter-network/shutter/shlib/puredkg.PureDKG).StartPhase3Apologizing
func vfStubStart3(p *puredkg.PureDKG) []puredkg.ApologyMsg {
	vfPh.starts[2]++
	p.Phase = puredkg.Apologizing
	var out []puredkg.ApologyMsg
	if vfBool("apologises") {
		out = append(out, puredkg.ApologyMsg{Eon: p.Eon, Accuser: 0, Accused: p.Keyper, Eval: new(big.Int).SetUint64(vfU64("apology-eval"))})
	}
	return out
}

//verif:stub (*github.com/shutter-network/shutter/shlib/puredkg.PureDKG).Finalize
func vfStubFinalize(p *puredkg.PureDKG) {
	vfPh.starts[3]++
	p.Phase = puredkg.Finalized
}

//verif:stub (*github.com/shutter-network/shutter/shlib/puredkg.PureDKG).ComputeResult
func vfStubComputeResult(p *puredkg.PureDKG) (puredkg.Result, error) {
	if !vfPh.computeOK {
		return puredkg.Result{Eon: p.Eon}, vfErr("dkg failed")
	}
	return puredkg.Result{Eon: p.Eon, NumKeypers: p.NumKeypers, Threshold: p.Threshold, Keyper: p.Keyper, PublicKey: vfTagged[shcrypto.EonPublicKey](vfU64("eonpk"))}, nil
}

//verif:stub github.com/shutter-network/rolling-shutter/rolling-shutter/shdb.EncodePureDKGResult
func vfStubEncodeResult(r *puredkg.Result) ([]byte, error) { return []byte("result"), nil }

//verif:stub (*github.com/shutter-network/shutter/shlib/shcrypto.EonPublicKey).GobEncode
func vfStubPKGob(k *shcrypto.EonPublicKey) ([]byte, error) { return []byte("eonpk"), nil }

//verif:stub github.com/shutter-network/rolling-shutter/rolling-shutter/shmsg.NewPolyCommitment
func vfStubNewPolyCommitment(eon uint64, gammas *shcrypto.Gammas) *shmsg.Message {
	m := &shmsg.Message{}
	vfPh.commitMsgs = append(vfPh.commitMsgs, m)
	return m
}

//verif:stub (*github.com/shutter-network/rolling-shutter/rolling-shutter/keyper/database.Queries).ScheduleShutterMessage
func vfStubSchedule(q *database.Queries, ctx context.Context, description string, msg *shmsg.Message) error {
	vfPh.scheduled = append(vfPh.scheduled, msg)
	return nil
}

//verif:stub (*github.com/shutter-network/rolling-shutter/rolling-shutter/keyper/database.Queries).InsertPolyEval sql=insertPolyEval
func vfStubInsertPolyEval(q *database.Queries, ctx context.Context, arg database.InsertPolyEvalParams) error {
	vfPh.polyEvals++
	return nil
}

//verif:stub (*github.com/shutter-network/rolling-shutter/rolling-shutter/keyper/database.Queries).DeletePureDKG sql=deletePureDKG
func vfStubDeletePure(q *database.Queries, ctx context.Context, eon int64) error {
	vfPh.deleted = append(vfPh.deleted, eon)
	return nil
}

//verif:stub (*github.com/shutter-network/rolling-shutter/rolling-shutter/keyper/database.Queries).DeletePolyEvalByEon sql=deletePolyEvalByEon
func vfStubDeletePolyEvals(q *database.Queries, ctx context.Context, eon int64) (pgconn.CommandTag, error) {
	return nil, nil
}

//verif:stub (github.com/jackc/pgconn.CommandTag).RowsAffected
func vfStubRowsAffected8(t pgconn.CommandTag) int64 { return 0 }

//verif:stub (*github.com/shutter-network/rolling-shutter/rolling-shutter/keyper/database.Queries).GetEon sql=getEon
func vfStubGetEon8(q *database.Queries, ctx context.Context, eon int64) (database.Eon, error) {
	for _, r := range vfEonRows {
		if r.Eon == eon {
			return r, nil
		}
	}
	return database.Eon{Eon: eon}, nil
}

var vfEonRows []database.Eon

//verif:stub (*github.com/shutter-network/rolling-shutter/rolling-shutter/keyper/database.Queries).InsertEonPublicKey sql=insertEonPublicKey
func vfStubInsertEonPK(q *database.Queries, ctx context.Context, arg database.InsertEonPublicKeyParams) error {
	vfEonKeys = append(vfEonKeys, arg)
	return nil
}

var vfEonKeys []database.InsertEonPublicKeyParams // rows queued for publication (outgoing eon keys)

//verif:stub (*github.com/shutter-network/rolling-shutter/rolling-shutter/keyper/database.Queries).InsertDKGResult sql=insertDKGResult
func vfStubInsertResult(q *database.Queries, ctx context.Context, arg database.InsertDKGResultParams) error {
	vfPh.results = append(vfPh.results, arg.Eon)
	vfAssert(arg.Success == vfPh.computeOK, "stored-result-reports-the-computed-outcome")
	return nil
}

// One block's shiftPhases on a freshly loaded DKG object, then Save: every phase the object moved
// through is persisted in the same block as the messages it queued. In particular the dealing
// phase queues exactly one polynomial commitment and is written back (a keyper that lost this
// write would deal a second, different polynomial after a restart).
func H_C08_phase_shift_written_back() {
	ks := vfKeypers(vfParam("keypers", 2))
	eon := vfU64("eon")
	vfAssume(eon < 1<<62)
	phase := puredkg.Phase(vfLen("phase", 3)) // Off .. Apologizing
	own := ks[0]
	st := vfState(own, eon, ks, phase)
	dkg := st.dkg[eon]
	dkg.startHeight = vfI64("start-height")
	height := vfI64("height")
	vfAssume(dkg.startHeight >= 0 && dkg.startHeight < 1<<40 && height >= 0 && height < 1<<40)
	vfPh.scheduled, vfPh.commitMsgs, vfPh.polyEvals, vfPh.deleted, vfPh.results = nil, nil, 0, nil, nil
	vfPh.starts = [4]int{}
	vfPh.computeOK = vfBool("dkg-succeeds")
	vfSaved = nil
	vfCalls = nil
	err := st.shiftPhases(context.Background(), nil, height)
	vfAssert(err == nil, "phase-shift-succeeds")
	// all keypers must decide who is corrupt from the same data: commitments, accusations and
	// apologies enter the key generation only as chain events, never directly from the keyper's
	// own phase transitions (an own accusation that does not make it into a block must not count)
	vfAssert(len(vfCalls) == 0, "phase-transitions-feed-no-input-into-the-key-generation")
	serr := st.Save(context.Background(), nil)
	vfAssert(serr == nil, "save-succeeds")
	target := st.phaseLength.GetPhaseAtHeight(height, dkg.startHeight)
	moved := dkg.pure.Phase != phase
	vfAssert(moved == (target > phase), "object-is-moved-to-the-phase-of-the-height")
	for i := 0; i < 4; i++ {
		vfAssert(vfPh.starts[i] <= 1, "each-phase-is-started-at-most-once")
	}
	if !moved {
		vfAssert(len(vfSaved) == 0 && len(vfPh.scheduled) == 0, "nothing-written-or-queued-without-a-transition")
		vfReach("no-transition")
		return
	}
	if dkg.pure.Phase == puredkg.Finalized {
		_, still := st.dkg[eon]
		vfAssert(!still && len(vfPh.deleted) == 1 && vfPh.deleted[0] == int64(eon), "finalised-object-is-removed-from-memory-and-table")
		vfAssert(len(vfPh.results) == 1 && vfPh.results[0] == int64(eon), "exactly-one-result-row")
		vfAssert(len(vfSaved) == 0, "removed-object-is-not-written-again")
		vfReach("finalised")
	} else {
		vfAssert(len(vfSaved) == 1 && vfSaved[0] == int64(eon), "moved-object-is-written-back-in-the-same-block")
		vfReach("moved-and-written-back")
	}
	if vfPh.starts[0] == 1 {
		n := 0
		for _, m := range vfPh.scheduled {
			if len(vfPh.commitMsgs) == 1 && m == vfPh.commitMsgs[0] {
				n++
			}
		}
		vfAssert(n == 1, "exactly-one-polynomial-commitment-queued-per-dealing")
		vfAssert(vfPh.polyEvals == len(ks), "one-evaluation-row-per-keyper")
	}
}


// ---- a keyper that reloads its state from the tables continues like one that kept it in memory ----

var vfReload struct {
	cfg           database.TendermintBatchConfig
	more          []database.TendermintBatchConfig // further keyper configurations (two-eon harness)
	lastCommitted int64
}

//verif:stub (*github.com/shutter-network/rolling-shutter/rolling-shutter/keyper/database.Queries).InsertEon sql=insertEon
func vfStubInsertEon8(q *database.Queries, ctx context.Context, arg database.InsertEonParams) error {
	vfEonRows = append(vfEonRows, database.Eon{Eon: arg.Eon, Height: arg.Height, ActivationBlockNumber: arg.ActivationBlockNumber, KeyperConfigIndex: arg.KeyperConfigIndex})
	return nil
}

//verif:stub (*github.com/shutter-network/rolling-shutter/rolling-shutter/keyper/database.Queries).GetBatchConfig sql=getBatchConfig
func vfStubGetBatchConfig8(q *database.Queries, ctx context.Context, idx int32) (database.TendermintBatchConfig, error) {
	if idx == vfReload.cfg.KeyperConfigIndex {
		return vfReload.cfg, nil
	}
	for _, c := range vfReload.more {
		if c.KeyperConfigIndex == idx {
			return c, nil
		}
	}
	return database.TendermintBatchConfig{}, pgx.ErrNoRows
}

//verif:stub (*github.com/shutter-network/rolling-shutter/rolling-shutter/keyper/database.Queries).GetLastCommittedHeight sql=getLastCommittedHeight
func vfStubLastCommitted8(q *database.Queries, ctx context.Context) (int64, error) {
	return vfReload.lastCommitted, nil
}

//verif:stub (*github.com/shutter-network/rolling-shutter/rolling-shutter/keyper/database.Queries).CountBatchConfigs sql=countBatchConfigs
func vfStubCountConfigs8(q *database.Queries, ctx context.Context) (int64, error) { return 1, nil }

//verif:stub (*github.com/shutter-network/rolling-shutter/rolling-shutter/keyper/database.Queries).SelectPureDKG sql=selectPureDKG
func vfStubSelectPure8(q *database.Queries, ctx context.Context) ([]database.Puredkg, error) {
	return vfPureRows, nil
}

//verif:stub github.com/shutter-network/shutter/shlib/puredkg.NewPureDKG
func vfStubNewPure(eon, n, t, keyper uint64) puredkg.PureDKG {
	return puredkg.PureDKG{Phase: puredkg.Off, Eon: eon, NumKeypers: n, Threshold: t, Keyper: keyper}
}

func H_C08_reload_equals_memory() {
	ks := vfKeypers(vfParam("keypers", 2))
	own := vfAny[common.Address]("own")
	e := &shutterevents.EonStarted{Height: vfI64("event.height"), Eon: vfU64("event.eon"), ActivationBlockNumber: vfU64("event.activation"), KeyperConfigIndex: vfU64("event.config-index")}
	vfAssume(e.Height >= 0 && e.Height < 1<<40 && e.Eon < 1<<62 && e.KeyperConfigIndex < 1<<31)
	vfReload.cfg = database.TendermintBatchConfig{KeyperConfigIndex: int32(e.KeyperConfigIndex), Height: vfI64("config.height"), Keypers: shdb.EncodeAddresses(ks), Threshold: int32(vfLen("threshold-minus-1", len(ks)-1) + 1)}
	// the event is handled while its own block is being applied - or later, while a keyper that was
	// down works through the backlog: the chain head may be arbitrarily far ahead of the block
	vfReload.lastCommitted = vfI64("chain-head")
	vfAssume(vfReload.lastCommitted >= e.Height-1 && vfReload.lastCommitted < 1<<41)
	vfReload.more = nil
	vfPh.scheduled, vfPh.commitMsgs, vfPh.polyEvals, vfPh.deleted, vfPh.results = nil, nil, 0, nil, nil
	vfPh.starts, vfPh.computeOK = [4]int{}, true
	vfSaved, vfPureStore, vfPureRows, vfEonRows = nil, nil, nil, nil

	st := NewShuttermintState(vfConf{addr: own})
	st.isKeyper = true
	err := st.HandleEvent(context.Background(), nil, e)
	if err != nil {
		vfReach("handler-error")
		return
	}
	vfAssert(st.Save(context.Background(), nil) == nil, "save-succeeds")

	st2 := NewShuttermintState(vfConf{addr: own}) // the restarted process
	vfAssert(st2.Load(context.Background(), nil) == nil, "load-succeeds")
	a, inMem := st.dkg[e.Eon]
	b, loaded := st2.dkg[e.Eon]
	vfAssert(inMem == loaded && len(st.dkg) == len(st2.dkg), "same-active-eons-after-reload")
	if !inMem || !loaded {
		vfReach("not-a-member")
		return
	}
	// applying a block is a function of the block, not of how far the chain has moved on: the new
	// key generation is in the phase of the event's own block, having dealt exactly once
	vfAssert(a.pure.Phase == puredkg.Dealing && vfPh.starts == [4]int{1, 0, 0, 0}, "eon-start-puts-the-key-generation-into-the-phase-of-its-own-block")
	vfAssert(b.startHeight == a.startHeight, "reloaded-eon-start-height-equals-the-one-in-memory")
	vfAssert(vfDeepEq(b.keypers, a.keypers), "reloaded-keyper-list-equals-the-one-in-memory")
	vfAssert(!b.dirty && !a.dirty, "nothing-dirty")
	vfAssert(b.pure.Phase == a.pure.Phase && b.pure.Eon == a.pure.Eon && b.pure.NumKeypers == a.pure.NumKeypers && b.pure.Threshold == a.pure.Threshold && b.pure.Keyper == a.pure.Keyper, "reloaded-object-equals-the-one-in-memory")
	// hence both compute the same phase for every later height
	h := vfI64("later-height")
	vfAssume(h >= 0 && h < 1<<40)
	vfAssert(st2.phaseLength.GetPhaseAtHeight(h, b.startHeight) == st.phaseLength.GetPhaseAtHeight(h, a.startHeight), "same-phase-at-every-later-height")
	vfReach("reloaded")
}


// Two key generations of different keyper configurations are active when the keyper restarts
// (the second eon started before the first one finished): each reloaded instance has its own
// configuration's keyper list and start height.
func H_C08_reload_two_eons() {
	own := vfAny[common.Address]("own")
	other1, other2 := vfAny[common.Address]("other1"), vfAny[common.Address]("other2")
	vfAssume(other1 != own && other2 != own && other1 != other2)
	ks1 := []common.Address{own, other1}
	ks2 := []common.Address{other2, own}
	e1 := &shutterevents.EonStarted{Height: vfI64("event1.height"), Eon: vfU64("event1.eon"), ActivationBlockNumber: vfU64("event1.activation"), KeyperConfigIndex: 1}
	e2 := &shutterevents.EonStarted{Height: vfI64("event2.height"), Eon: vfU64("event2.eon"), ActivationBlockNumber: vfU64("event2.activation"), KeyperConfigIndex: 2}
	vfAssume(e1.Height >= 0 && e1.Height < e2.Height && e2.Height < 1<<40 && e1.Eon < e2.Eon && e2.Eon < 1<<62)
	vfAssume(e1.ActivationBlockNumber < 1<<62 && e2.ActivationBlockNumber < 1<<62)
	vfReload.cfg = database.TendermintBatchConfig{KeyperConfigIndex: 1, Keypers: shdb.EncodeAddresses(ks1), Threshold: 1}
	vfReload.more = []database.TendermintBatchConfig{{KeyperConfigIndex: 2, Keypers: shdb.EncodeAddresses(ks2), Threshold: 2}}
	vfPh.scheduled, vfPh.commitMsgs, vfPh.polyEvals, vfPh.deleted, vfPh.results = nil, nil, 0, nil, nil
	vfPh.starts, vfPh.computeOK = [4]int{}, true
	vfSaved, vfPureStore, vfPureRows, vfEonRows = nil, nil, nil, nil

	st := NewShuttermintState(vfConf{addr: own})
	st.isKeyper = true
	vfReload.lastCommitted = e1.Height - 1
	vfAssume(st.HandleEvent(context.Background(), nil, e1) == nil)
	vfReload.lastCommitted = e2.Height - 1
	vfAssume(st.HandleEvent(context.Background(), nil, e2) == nil)
	vfAssert(st.Save(context.Background(), nil) == nil, "save-succeeds")

	st2 := NewShuttermintState(vfConf{addr: own})
	vfAssert(st2.Load(context.Background(), nil) == nil, "load-succeeds")
	vfAssert(len(st.dkg) == 2 && len(st2.dkg) == 2, "both-eons-active-after-reload")
	for _, eon := range []uint64{e1.Eon, e2.Eon} {
		a, ok1 := st.dkg[eon]
		b, ok2 := st2.dkg[eon]
		vfAssert(ok1 && ok2, "same-active-eons-after-reload")
		if !ok1 || !ok2 {
			return
		}
		vfAssert(vfDeepEq(b.keypers, a.keypers), "reloaded-keyper-list-equals-the-one-in-memory")
		vfAssert(b.startHeight == a.startHeight, "reloaded-eon-start-height-equals-the-one-in-memory")
		vfAssert(b.pure.Eon == a.pure.Eon && b.pure.NumKeypers == a.pure.NumKeypers && b.pure.Threshold == a.pure.Threshold && b.pure.Keyper == a.pure.Keyper, "reloaded-object-equals-the-one-in-memory")
	}
	vfAssert(vfDeepEq(st2.dkg[e1.Eon].keypers, ks1) && vfDeepEq(st2.dkg[e2.Eon].keypers, ks2), "each-reloaded-eon-has-its-own-configuration's-keypers")
	vfReach("reloaded")
}

// C20 (first hop): when the key generation of an eon finishes successfully, finalizeDKG queues
// the eon public key for publication exactly once, under the eon's number; a failed key generation
// queues nothing. (The second hop, from that table to broadcast or callback, is H_C20_publish_all.)
func H_C20_finalize_queues_key() {
	ks := vfKeypers(vfParam("keypers", 2))
	eon := vfU64("eon")
	vfAssume(eon < 1<<62)
	st := vfState(ks[0], eon, ks, puredkg.Apologizing)
	dkg := st.dkg[eon]
	vfPh.scheduled, vfPh.commitMsgs, vfPh.polyEvals, vfPh.deleted, vfPh.results = nil, nil, 0, nil, nil
	vfPh.starts = [4]int{}
	vfPh.computeOK = vfBool("dkg-succeeds")
	vfEonKeys, vfEonRows = nil, nil
	err := st.finalizeDKG(context.Background(), nil, eon, dkg)
	vfAssert(err == nil, "finalisation-succeeds")
	if vfPh.computeOK {
		vfAssert(len(vfEonKeys) == 1 && vfEonKeys[0].Eon == int64(eon) && string(vfEonKeys[0].EonPublicKey) == "eonpk", "successful-key-generation-queues-its-eon-public-key-exactly-once")
		vfReach("queued")
	} else {
		vfAssert(len(vfEonKeys) == 0, "failed-key-generation-queues-no-key")
		vfReach("nothing-queued")
	}
	vfAssert(len(vfPh.results) == 1 && vfPh.results[0] == int64(eon), "result-recorded-for-the-eon")
	vfAssert(len(vfPh.scheduled) == 1, "result-reported-to-shuttermint-once")
}


// ---- sending side of the evaluations (BeforeSaveHook) ----

var vfSend struct {
	rows    []database.PolyEvalsWithEncryptionKeysRow
	keyTags []uint64 // tag of the encryption key stored for row i's receiver
	deleted []database.DeletePolyEvalParams
}

//verif:stub (*github.com/shutter-network/rolling-shutter/rolling-shutter/keyper/database.Queries).PolyEvalsWithEncryptionKeys sql=polyEvalsWithEncryptionKeys
func vfStubEvalRows(q *database.Queries, ctx context.Context) ([]database.PolyEvalsWithEncryptionKeysRow, error) {
	return vfSend.rows, nil
}

//verif:stub github.com/shutter-network/rolling-shutter/rolling-shutter/shdb.DecodeEciesPublicKey
func vfStubDecodeEcies(data []byte) (*ecies.PublicKey, error) {
	if vfUFBool("ecies-key-malformed", data) {
		return nil, vfErr("ecies key")
	}
	return &ecies.PublicKey{X: new(big.Int).SetUint64(vfUFU64("ecies-key-of", data))}, nil
}

//verif:stub github.com/ethereum/go-ethereum/crypto/ecies.Encrypt
func vfStubEncrypt(rand io.Reader, pub *ecies.PublicKey, m, s1, s2 []byte) ([]byte, error) {
	return vfUFBytesN("ecies-ciphertext", 2, pub.X.Uint64(), m), nil
}

//verif:stub (*github.com/shutter-network/rolling-shutter/rolling-shutter/keyper/database.Queries).DeletePolyEval sql=deletePolyEval
func vfStubDeleteEval(q *database.Queries, ctx context.Context, arg database.DeletePolyEvalParams) error {
	vfSend.deleted = append(vfSend.deleted, arg)
	return nil
}

// Every queued evaluation is sent exactly once, in a message of its own eon, addressed to its own
// receiver, encrypted under the key stored for that receiver, and removed from the queue in the
// same transaction; evaluations of different eons never share a message.
func H_C07_evaluations_sent_to_their_receivers() {
	k := vfLen("rows", vfParam("rows", 3))
	vfSend.rows, vfSend.deleted = nil, nil
	var recv []common.Address
	for i := 0; i < k; i++ {
		a := vfAny[common.Address]("row.receiver")
		recv = append(recv, a)
		r := database.PolyEvalsWithEncryptionKeysRow{Eon: vfI64("row.eon"), ReceiverAddress: shdb.EncodeAddress(a), Eval: vfBytesN("row.eval", 2), EncryptionPublicKey: vfBytesN("row.key", 2)}
		vfAssume(r.Eon >= 0)
		if i > 0 {
			vfAssume(vfSend.rows[i-1].Eon <= r.Eon) // ORDER BY ev.eon
			vfAssume(!(vfSend.rows[i-1].Eon == r.Eon && recv[i-1] == a))
		}
		vfSend.rows = append(vfSend.rows, r)
	}
	vfPh.scheduled, vfPh.commitMsgs = nil, nil
	st := NewShuttermintState(vfConf{addr: vfAny[common.Address]("own")})
	err := st.BeforeSaveHook(context.Background(), nil)
	if err != nil {
		vfReach("aborted") // a malformed stored key aborts the block transaction: nothing is committed
		return
	}
	vfAssert(len(vfSend.deleted) == k, "every-sent-evaluation-is-removed-from-the-queue")
	sent := 0
	for _, m := range vfPh.scheduled {
		pe := m.GetPolyEval()
		vfAssert(pe != nil && len(pe.Receivers) == len(pe.EncryptedEvals) && len(pe.Receivers) > 0, "wellformed-evaluation-message")
		if pe == nil {
			continue
		}
		for j := range pe.Receivers {
			i := sent
			sent++
			if i >= k || j >= len(pe.EncryptedEvals) {
				continue
			}
			r := vfSend.rows[i]
			vfAssert(pe.Eon == uint64(r.Eon), "evaluation-travels-in-a-message-of-its-own-eon")
			vfAssert(bytes.Equal(pe.Receivers[j], recv[i][:]), "evaluation-is-addressed-to-its-receiver")
			vfAssert(bytes.Equal(pe.EncryptedEvals[j], vfUFBytesN("ecies-ciphertext", 2, vfUFU64("ecies-key-of", r.EncryptionPublicKey), r.Eval)), "evaluation-is-encrypted-under-the-receivers-key")
			vfAssert(vfSend.deleted[i].Eon == r.Eon && vfSend.deleted[i].ReceiverAddress == r.ReceiverAddress, "removed-row-is-the-sent-one")
		}
	}
	vfAssert(sent == k, "every-queued-evaluation-is-sent-exactly-once")
	for a := 0; a+1 < len(vfPh.scheduled); a++ {
		vfAssert(vfPh.scheduled[a].GetPolyEval().Eon < vfPh.scheduled[a+1].GetPolyEval().Eon, "one-message-per-eon")
	}
	vfReach("sent")
}

// C07 (phase is a pure function of the height, for EVERY active key generation): two key
// generations overlap (the second eon started before the first one finished). One shiftPhases at
// an arbitrary height, whatever order the map of active instances is visited in, moves each of them
// to the phase of that height - also when the other one is finalised and removed in the same call.
func H_C07_every_active_eon_is_shifted() {
	ks := vfKeypers(vfParam("keypers", 2))
	e1, e2 := vfU64("eon1"), vfU64("eon2")
	vfAssume(e1 < e2 && e2 < 1<<62)
	p1, p2 := puredkg.Phase(vfLen("phase1", 3)), puredkg.Phase(vfLen("phase2", 3))
	own := ks[0]
	st := vfState(own, e1, ks, p1)
	a1 := st.dkg[e1]
	a2 := &ActiveDKG{pure: &puredkg.PureDKG{Phase: p2, Eon: e2, NumKeypers: uint64(len(ks)), Threshold: 1, Keyper: 0}, keypers: ks}
	st.dkg[e2] = a2
	a1.startHeight, a2.startHeight = vfI64("start-height1"), vfI64("start-height2")
	height := vfI64("height")
	vfAssume(a1.startHeight >= 0 && a1.startHeight <= a2.startHeight && a2.startHeight < 1<<40 && height >= 0 && height < 1<<40)
	vfPh.scheduled, vfPh.commitMsgs, vfPh.polyEvals, vfPh.deleted, vfPh.results = nil, nil, 0, nil, nil
	vfPh.starts = [4]int{}
	vfPh.computeOK = vfBool("dkg-succeeds")
	vfSaved = nil
	err := st.shiftPhases(context.Background(), nil, height)
	vfAssert(err == nil, "phase-shift-succeeds")
	t1 := st.phaseLength.GetPhaseAtHeight(height, a1.startHeight)
	t2 := st.phaseLength.GetPhaseAtHeight(height, a2.startHeight)
	if t1 < p1 {
		t1 = p1
	}
	if t2 < p2 {
		t2 = p2
	}
	vfAssert(a1.pure.Phase == t1, "first-eon-is-in-the-phase-of-the-height")
	vfAssert(a2.pure.Phase == t2, "second-eon-is-in-the-phase-of-the-height")
	if t1 == puredkg.Finalized && p1 != puredkg.Finalized {
		vfReach("first-eon-finalised-in-this-call")
		if t2 != p2 {
			vfReach("second-eon-moved-in-the-same-call")
		}
	}
}

package smobserver

import (
	"context"
	"math/big"

	"github.com/ethereum/go-ethereum/common"

	"github.com/shutter-network/shutter/shlib/puredkg"

	"github.com/shutter-network/rolling-shutter/rolling-shutter/keyper/database"
	"github.com/shutter-network/rolling-shutter/rolling-shutter/keyper/shutterevents"
)

// C08 (cache write-back): the in-memory DKG object is a cache of the puredkg table. Whenever an
// event makes the DKG library accept an input (the object changes), the eon must be written back
// by the Save of the same block transaction; otherwise a crash after the block loses the input
// although the sync position has moved past it.

var vfSaved []int64

//verif:stub github.com/shutter-network/rolling-shutter/rolling-shutter/shdb.EncodePureDKG
func vfStubEncodePure(p *puredkg.PureDKG) ([]byte, error) { return []byte("pure"), nil }

//verif:stub (*github.com/shutter-network/rolling-shutter/rolling-shutter/keyper/database.Queries).InsertPureDKG sql=insertPureDKG
func vfStubInsertPure(q *database.Queries, ctx context.Context, arg database.InsertPureDKGParams) error {
	vfSaved = append(vfSaved, arg.Eon)
	return nil
}

func H_C08_cache_written_back_when_changed() {
	ks := vfKeypers(vfParam("keypers", 3))
	eon := vfU64("eon")
	vfAssume(eon < 1<<62)
	phase := puredkg.Phase(vfLen("phase", 4))
	vfPureErr = vfBool("library-refuses")
	own := vfAny[common.Address]("own")
	evEon := vfU64("event.eon")
	sender := vfAny[common.Address]("event.sender")
	var ev shutterevents.IEvent
	switch vfLen("event.kind", 3) {
	case 0:
		ev = &shutterevents.PolyCommitment{Eon: evEon, Sender: sender}
	case 1:
		ev = &shutterevents.Accusation{Eon: evEon, Sender: sender, Accused: vfAddrs("event.accused", vfParam("list", 2))}
	case 2:
		e := &shutterevents.Apology{Eon: evEon, Sender: sender, Accusers: vfAddrs("event.accuser", vfParam("list", 2))}
		for range e.Accusers {
			e.PolyEval = append(e.PolyEval, new(big.Int).SetUint64(vfU64("event.eval")))
		}
		ev = e
	default:
		e := &shutterevents.PolyEval{Eon: evEon, Sender: sender, Receivers: vfAddrs("event.receiver", vfParam("list", 2))}
		for range e.Receivers {
			e.EncryptedEvals = append(e.EncryptedEvals, vfBytes("event.ciphertext", 2))
		}
		ev = e
	}
	st := vfState(own, eon, ks, phase) // freshly loaded: nothing dirty
	vfCalls, vfSaved = nil, nil
	err := st.HandleEvent(context.Background(), nil, ev)
	if err != nil {
		vfReach("handler-error") // the block transaction is rolled back and the cache discarded (H_C08_block_transaction)
		return
	}
	changed := false
	for _, c := range vfCalls {
		if c.kind == 4 || !vfPureErr {
			changed = true
		}
	}
	serr := st.Save(context.Background(), nil)
	vfAssert(serr == nil, "save-succeeds")
	if changed {
		vfAssert(len(vfSaved) == 1 && vfSaved[0] == int64(eon), "changed-dkg-object-is-written-back-in-the-same-block")
		vfReach("written-back")
	} else {
		vfReach("unchanged")
	}
	vfAssert(!st.dkg[eon].dirty, "nothing-dirty-after-save")
}

package smobserver

import (
	"context"

	"github.com/ethereum/go-ethereum/common"
	"github.com/jackc/pgx/v4"
	"github.com/jackc/pgx/v4/pgxpool"
	abcitypes "github.com/tendermint/tendermint/abci/types"
	"github.com/tendermint/tendermint/rpc/client"
	coretypes "github.com/tendermint/tendermint/rpc/core/types"

	"github.com/shutter-network/rolling-shutter/rolling-shutter/keyper/database"
	"github.com/shutter-network/rolling-shutter/rolling-shutter/keyper/shutterevents"
)

// C08 (a): one database transaction per shuttermint block. The driver's real skeleton
// (fetchEvents2, handleBlock, makeEvents) is executed; the state handlers it calls are recorders
// that write their "effects" into a ghost database, so that atomicity of the transaction
// (commit or nothing, a symbolic choice per BeginFunc: this is where a crash is) can be observed.

type vfGhostDB struct {
	current  int64   // tendermint_sync_meta.current_block
	applied  []int64 // heights whose effects are in the database, in order
	events   int     // number of event effects applied
}

var (
	vfDBc      vfGhostDB
	vfCrashAt  int // index of the transaction that does not commit (-1: none)
	vfTxIdx    int
	vfStepErr  int // index of the handler step that fails (-1: none)
	vfStep     int
	vfOrder    []int // per block: sequence of event positions handled
	vfBlocks   []*coretypes.ResultBlockResults
	vfRPCErrAt int64
	vfLastTxFailed bool
)

type vfTM struct{ client.Client }

func (vfTM) BlockResults(ctx context.Context, h *int64) (*coretypes.ResultBlockResults, error) {
	if *h == vfRPCErrAt {
		return nil, vfErr("rpc")
	}
	for _, b := range vfBlocks {
		if b.Height == *h {
			return b, nil
		}
	}
	return nil, vfErr("unknown block")
}

//verif:stub (*github.com/jackc/pgx/v4/pgxpool.Pool).BeginFunc
func vfStubBeginFunc8(p *pgxpool.Pool, ctx context.Context, f func(pgx.Tx) error) error {
	snapshot := vfDBc
	snapshot.applied = append([]int64{}, vfDBc.applied...)
	idx := vfTxIdx
	vfTxIdx++
	err := f(nil)
	vfLastTxFailed = err != nil || idx == vfCrashAt
	if err != nil || idx == vfCrashAt {
		vfDBc = snapshot
		if err == nil {
			err = vfErr("connection lost before commit")
		}
		return err
	}
	return nil
}

func vfMaybeFail() error {
	k := vfStep
	vfStep++
	if k == vfStepErr {
		return vfErr("handler")
	}
	return nil
}

//verif:stub (*github.com/shutter-network/rolling-shutter/rolling-shutter/keyper/database.Queries).TMGetSyncMeta sql=tMGetSyncMeta
func vfStubGetMeta(q *database.Queries, ctx context.Context) (database.TendermintSyncMetum, error) {
	return database.TendermintSyncMetum{CurrentBlock: vfDBc.current}, nil
}

//verif:stub (*github.com/shutter-network/rolling-shutter/rolling-shutter/keyper/database.Queries).TMSetSyncMeta sql=tMSetSyncMeta
func vfStubSetMeta(q *database.Queries, ctx context.Context, arg database.TMSetSyncMetaParams) error {
	vfDBc.current = arg.CurrentBlock
	return nil
}

//verif:stub (*github.com/shutter-network/rolling-shutter/rolling-shutter/keyper/smobserver.ShuttermintState).Load
func vfStubLoad(st *ShuttermintState, ctx context.Context, q *database.Queries) error {
	st.synchronized = true
	return vfMaybeFail()
}

//verif:stub (*github.com/shutter-network/rolling-shutter/rolling-shutter/keyper/smobserver.ShuttermintState).shiftPhases
func vfStubShift(st *ShuttermintState, ctx context.Context, q *database.Queries, height int64) error {
	vfDBc.applied = append(vfDBc.applied, height)
	return vfMaybeFail()
}

//verif:stub (*github.com/shutter-network/rolling-shutter/rolling-shutter/keyper/smobserver.ShuttermintState).HandleEvent
func vfStubHandleEvent(st *ShuttermintState, ctx context.Context, q *database.Queries, ev shutterevents.IEvent) error {
	vfDBc.events++
	if cs, ok := ev.(*shutterevents.BatchConfigStarted); ok {
		vfOrder = append(vfOrder, int(cs.KeyperConfigIndex))
	}
	return vfMaybeFail()
}

//verif:stub (*github.com/shutter-network/rolling-shutter/rolling-shutter/keyper/smobserver.ShuttermintState).BeforeSaveHook
func vfStubBeforeSave(st *ShuttermintState, ctx context.Context, q *database.Queries) error {
	return vfMaybeFail()
}

//verif:stub (*github.com/shutter-network/rolling-shutter/rolling-shutter/keyper/smobserver.ShuttermintState).Save
func vfStubSave(st *ShuttermintState, ctx context.Context, q *database.Queries) error {
	return vfMaybeFail()
}

func vfStartedEvent(pos uint64) abcitypes.Event {
	return shutterevents.BatchConfigStarted{KeyperConfigIndex: pos}.MakeABCIEvent()
}

func H_C08_block_transaction() {
	from := vfI64("from")
	vfAssume(from >= 0 && from < 1<<40)
	nblocks := vfLen("blocks", vfParam("blocks", 2))
	last := from + int64(nblocks) + 1 // fetchEvents2 handles from+1 .. last-1
	vfBlocks, vfOrder = nil, nil
	for i := 0; i < nblocks; i++ {
		// three events per block, tagged with their position: begin-block, one tx, end-block
		b := &coretypes.ResultBlockResults{Height: from + int64(i) + 1,
			BeginBlockEvents: []abcitypes.Event{vfStartedEvent(0)},
			TxsResults:       []*abcitypes.ResponseDeliverTx{{Events: []abcitypes.Event{vfStartedEvent(1)}}},
			EndBlockEvents:   []abcitypes.Event{vfStartedEvent(2)}}
		vfBlocks = append(vfBlocks, b)
	}
	vfDBc = vfGhostDB{current: from}
	vfCrashAt, vfStepErr = vfInt("crash-at-tx"), vfInt("handler-error-at")
	vfAssume(vfCrashAt >= -1 && vfCrashAt < 3 && vfStepErr >= -1 && vfStepErr < 16)
	vfRPCErrAt = vfI64("rpc-error-at")
	vfTxIdx, vfStep, vfLastTxFailed = 0, 0, false
	st := NewShuttermintState(vfConf8{})
	st.isKeyper = true // marker: Invalidate() resets it
	drv := &ShuttermintDriver{shmcl: vfTM{}, shuttermintState: st}
	err := drv.fetchEvents2(context.Background(), from, last)

	// whatever happened: the database holds the effects of a prefix of the blocks, each exactly
	// once and in order, and the sync position is the last block whose effects it holds
	for i, h := range vfDBc.applied {
		vfAssert(h == from+int64(i)+1, "blocks-applied-exactly-once-in-order")
	}
	vfAssert(vfDBc.current == from+int64(len(vfDBc.applied)), "sync-position-moves-only-together-with-the-blocks-effects")
	vfAssert(vfDBc.events == 3*len(vfDBc.applied), "all-events-of-an-applied-block-are-applied-none-of-an-unapplied-one")
	if err == nil {
		vfReach("all-blocks-applied")
		vfAssert(len(vfDBc.applied) == nblocks, "no-block-skipped")
	} else {
		vfReach("interrupted")
		vfAssert(len(vfDBc.applied) < nblocks || nblocks == 0, "error-only-if-something-was-not-applied")
		if vfTxIdx > 0 && vfLastTxFailed {
			vfAssert(!st.isKeyper && !st.synchronized, "in-memory-state-discarded-after-a-failed-block")
			vfReach("state-invalidated")
		}
	}
	// events of a block are handled in block order: begin, tx, end
	for i := 0; i+1 < len(vfOrder); i++ {
		vfAssert(vfOrder[i+1] == (vfOrder[i]+1)%3, "events-handled-in-block-order")
	}
}

type vfConf8 struct{ vfConf }

var _ = common.Address{}

package smobserver

import (
	abcitypes "github.com/tendermint/tendermint/abci/types"

	"github.com/shutter-network/rolling-shutter/rolling-shutter/keyper/shutterevents"
)

// C14 (the keyper's reading of a block's events): makeEvents keeps exactly the well-formed events
// of a block, in block order, and drops malformed ones (unknown type, missing attributes) without
// leaving holes; the keyper therefore never handles a nil event.
func H_C14_make_events() {
	n := vfLen("events", vfParam("events", 3))
	height := vfI64("height")
	var evs []abcitypes.Event
	var want []uint64
	for i := 0; i < n; i++ {
		switch vfLen("event.kind", 2) {
		case 0:
			idx := vfU64("event.config-index")
			evs = append(evs, shutterevents.BatchConfigStarted{KeyperConfigIndex: idx}.MakeABCIEvent())
			want = append(want, idx)
		case 1:
			evs = append(evs, abcitypes.Event{Type: "shutter.batch-config-started"}) // attributes missing
		default:
			evs = append(evs, abcitypes.Event{Type: "tx"}) // not a shutter event
		}
	}
	out := makeEvents(height, evs)
	vfAssert(len(out) == len(want), "exactly-the-wellformed-events-are-kept")
	for i, e := range out {
		vfAssert(e != nil, "no-holes-in-the-event-list")
		if e == nil || i >= len(want) {
			continue
		}
		s, ok := e.(*shutterevents.BatchConfigStarted)
		vfAssert(ok && s.KeyperConfigIndex == want[i] && s.Height == height, "events-in-block-order-with-the-block-height")
	}
	if len(want) < n {
		vfReach("some-dropped")
	}
	if len(want) > 0 {
		vfReach("some-kept")
	}
}

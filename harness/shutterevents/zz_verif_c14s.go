package shutterevents

import (
	"github.com/ethereum/go-ethereum/common"
	"github.com/ethereum/go-ethereum/crypto/ecies"
	abcitypes "github.com/tendermint/tendermint/abci/types"

	"github.com/shutter-network/shutter/shlib/shcrypto"
)

// C14 (structure of the decoder): MakeEvent on an event of arbitrary type with an arbitrary
// number of arbitrarily named attributes never crashes, whatever the value decoders answer. The
// value decoders are stubs with arbitrary answers (value or error, lists of arbitrary length), so
// that every combination of "right names, too few / too many attributes, inconsistent list
// lengths" is explored and every counterexample replays natively. The decoders themselves are
// exercised by the round-trip harnesses.

//verif:stub github.com/shutter-network/rolling-shutter/rolling-shutter/keyper/shutterevents.decodeUint64
func vfStubDecodeUint64(val string) (uint64, error) {
	if vfBool("dec.uint-fails") {
		return 0, vfErr("uint")
	}
	return vfU64("dec.uint"), nil
}

//verif:stub github.com/shutter-network/rolling-shutter/rolling-shutter/keyper/shutterevents.decodeAddress
func vfStubDecodeAddress(s string) (common.Address, error) {
	if vfBool("dec.address-fails") {
		return common.Address{}, vfErr("address")
	}
	return vfAny[common.Address]("dec.address"), nil
}

//verif:stub github.com/shutter-network/rolling-shutter/rolling-shutter/keyper/shutterevents.decodeAddresses
func vfStubDecodeAddresses(s string) ([]common.Address, error) {
	if vfBool("dec.addresses-fail") {
		return nil, vfErr("addresses")
	}
	var out []common.Address
	n := vfLen("dec.naddresses", vfParam("list", 2))
	for i := 0; i < n; i++ {
		out = append(out, vfAny[common.Address]("dec.addresses"))
	}
	return out, nil
}

//verif:stub github.com/shutter-network/rolling-shutter/rolling-shutter/keyper/shutterevents.decodeByteSequence
func vfStubDecodeByteSequence(s string) ([][]byte, error) {
	if vfBool("dec.bytes-fail") {
		return nil, vfErr("bytes")
	}
	var out [][]byte
	n := vfLen("dec.nbytes", vfParam("list", 2))
	for i := 0; i < n; i++ {
		out = append(out, vfBytes("dec.bytes", 2))
	}
	return out, nil
}

//verif:stub github.com/shutter-network/rolling-shutter/rolling-shutter/keyper/shutterevents.decodeGammas
func vfStubDecodeGammas(s string) (shcrypto.Gammas, error) {
	if vfBool("dec.gammas-fail") {
		return shcrypto.Gammas{}, vfErr("gammas")
	}
	return shcrypto.Gammas{}, nil
}

//verif:stub github.com/shutter-network/rolling-shutter/rolling-shutter/keyper/shutterevents.decodeECIESPublicKey
func vfStubDecodeECIES(s string) (*ecies.PublicKey, error) {
	if vfBool("dec.ecies-fails") {
		return nil, vfErr("ecies")
	}
	return &ecies.PublicKey{}, nil
}

func H_C14_decode_structure() {
	names := []string{"shutter.check-in", "shutter.batch-config", "shutter.batch-config-started", "shutter.eon-started",
		"shutter.poly-commitment-registered", "shutter.poly-eval-registered", "shutter.accusation-registered", "shutter.apology-registered"}
	ev := abcitypes.Event{Type: names[vfLen("type", len(names)-1)]}
	n := vfLen("nattrs", vfParam("attrs", 5))
	for i := 0; i < n; i++ {
		ev.Attributes = append(ev.Attributes, abcitypes.EventAttribute{Key: vfAtom("key"), Value: "value", Index: vfBool("index")})
	}
	y, err := MakeEvent(ev, vfI64("height"))
	if err != nil {
		vfReach("error")
	} else {
		vfReach("decoded")
		vfAssert(y != nil, "event-on-success")
	}
}

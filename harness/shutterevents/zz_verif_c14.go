package shutterevents

import (
	"crypto/ecdsa"
	"encoding/hex"
	"math/big"

	"github.com/ethereum/go-ethereum/common"
	"github.com/ethereum/go-ethereum/crypto/ecies"
	blst "github.com/supranational/blst/bindings/go"
	abcitypes "github.com/tendermint/tendermint/abci/types"

	"github.com/shutter-network/shutter/shlib/shcrypto"

)

// C14: MakeEvent(x.MakeABCIEvent(), h) == x with Height = h for every event type; arbitrary
// attribute lists never crash the decoder and every decoding failure is reported as an error.
// Text codecs (decimal, hex, base64, address hex, Join/Split on ',') are injective free
// constructors in the engine: the check is one of the plumbing (which attribute, position,
// decoder, field, empty-list handling), not of strconv/hex themselves.

type vfP2 = blst.P2Affine

func vfTagBytes(t uint64) []byte {
	b := make([]byte, 8)
	for i := 0; i < 8; i++ {
		b[7-i] = byte(t >> (8 * i))
	}
	return b
}

func vfBytesTag(b []byte) uint64 {
	var t uint64
	for i := 0; i < 8; i++ {
		t = t<<8 | uint64(b[i])
	}
	return t
}

//verif:stub github.com/ethereum/go-ethereum/crypto.FromECDSAPub
func vfStubFromECDSAPub(p *ecdsa.PublicKey) []byte {
	if p == nil || p.X == nil {
		return nil
	}
	return vfTagBytes(p.X.Uint64())
}

//verif:stub github.com/ethereum/go-ethereum/crypto.UnmarshalPubkey
func vfStubUnmarshalPubkey(b []byte) (*ecdsa.PublicKey, error) {
	if len(b) != 8 || !vfUFBool("pubkey-on-curve", b) {
		return nil, vfErr("invalid public key")
	}
	return &ecdsa.PublicKey{X: new(big.Int).SetUint64(vfBytesTag(b))}, nil
}

//verif:stub github.com/ethereum/go-ethereum/crypto/ecies.ImportECDSAPublic
func vfStubImport(p *ecdsa.PublicKey) *ecies.PublicKey { return &ecies.PublicKey{X: p.X, Y: p.Y} }

//verif:stub (*github.com/ethereum/go-ethereum/crypto/ecies.PublicKey).ExportECDSA
func vfStubExport(k *ecies.PublicKey) *ecdsa.PublicKey { return &ecdsa.PublicKey{X: k.X, Y: k.Y} }

//verif:stub (*github.com/shutter-network/shutter/shlib/shcrypto.Gammas).Marshal
func vfStubGammasMarshal(g *shcrypto.Gammas) []byte {
	out := []byte{}
	for _, p := range *g {
		out = append(out, vfTagBytes(vfTagOf(p))...)
	}
	return out
}

var vfGammaCount int

//verif:stub (*github.com/shutter-network/shutter/shlib/shcrypto.Gammas).Unmarshal
func vfStubGammasUnmarshal(g *shcrypto.Gammas, b []byte) error {
	// the real decoder requires a multiple of the point size and points on the curve
	if len(b) != 8*vfGammaCount || !vfUFBool("gammas-on-curve", b) {
		return vfErr("gammas")
	}
	for i := 0; i < vfGammaCount; i++ {
		*g = append(*g, vfTagged[vfP2](vfBytesTag(b[8*i:8*i+8])))
	}
	return nil
}

// The gob decoder of the same type, as the library implements it: no length check (a trailing
// partial chunk is sliced out of range) and no error for malformed points. It is not what
// decodeGammas is meant to call; the model makes such a slip visible instead of an engine fault.
//
//verif:stub (*github.com/shutter-network/shutter/shlib/shcrypto.Gammas).GobDecode
func vfStubGammasGobDecode(g *shcrypto.Gammas, data []byte) error {
	for i := 0; i < len(data); i += 8 {
		chunk := data[i : i+8]
		*g = append(*g, vfTagged[vfP2](vfBytesTag(chunk)))
	}
	return nil
}

func vfEciesKey(tag string) *ecies.PublicKey {
	return &ecies.PublicKey{X: new(big.Int).SetUint64(vfU64(tag))}
}

func vfAddrs(tag string, max int) []common.Address {
	n := vfLen(tag+".n", max)
	var out []common.Address
	for i := 0; i < n; i++ {
		out = append(out, vfAny[common.Address](tag))
	}
	return out
}

func H_C14_roundtrip_simple() {
	list := vfParam("list", 2)
	h := vfI64("height")
	switch vfLen("kind", 4) {
	case 0:
		x := BatchConfig{Keypers: vfAddrs("keyper", list), ActivationBlockNumber: vfU64("activation"), Threshold: vfU64("threshold"), KeyperConfigIndex: vfU64("index")}
		y, err := MakeEvent(x.MakeABCIEvent(), h)
		vfAssert(err == nil, "batch-config-decodes")
		x.Height = h // Started / ValidatorsUpdated are not part of the event
		vfAssert(err != nil || vfDeepEq(y.(*BatchConfig), &x), "batch-config-roundtrip")
		vfReach("batch-config")
	case 1:
		x := BatchConfigStarted{KeyperConfigIndex: vfU64("index")}
		y, err := MakeEvent(x.MakeABCIEvent(), h)
		x.Height = h
		vfAssert(err == nil && vfDeepEq(y.(*BatchConfigStarted), &x), "batch-config-started-roundtrip")
		vfReach("batch-config-started")
	case 2:
		x := EonStarted{Eon: vfU64("eon"), ActivationBlockNumber: vfU64("activation"), KeyperConfigIndex: vfU64("index")}
		y, err := MakeEvent(x.MakeABCIEvent(), h)
		x.Height = h
		vfAssert(err == nil && vfDeepEq(y.(*EonStarted), &x), "eon-started-roundtrip")
		vfReach("eon-started")
	case 3:
		x := Accusation{Eon: vfU64("eon"), Sender: vfAny[common.Address]("sender"), Accused: vfAddrs("accused", list)}
		y, err := MakeEvent(x.MakeABCIEvent(), h)
		x.Height = h
		vfAssert(err == nil && vfDeepEq(y.(*Accusation), &x), "accusation-roundtrip")
		vfReach("accusation")
	case 4:
		x := PolyEval{Eon: vfU64("eon"), Sender: vfAny[common.Address]("sender"), Receivers: vfAddrs("receiver", list)}
		n := vfLen("nevals", list)
		for i := 0; i < n; i++ {
			x.EncryptedEvals = append(x.EncryptedEvals, vfBytes("eval", 3))
		}
		y, err := MakeEvent(x.MakeABCIEvent(), h)
		x.Height = h
		vfAssert(err == nil && vfDeepEq(y.(*PolyEval), &x), "poly-eval-roundtrip")
		vfReach("poly-eval")
	}
}

func H_C14_roundtrip_keys() {
	h := vfI64("height")
	switch vfLen("kind", 2) {
	case 0:
		x := CheckIn{Sender: vfAny[common.Address]("sender"), EncryptionPublicKey: vfEciesKey("enckey")}
		vfAxiom(vfUFBool("pubkey-on-curve", vfTagBytes(x.EncryptionPublicKey.X.Uint64()))) // the app only emits keys it decompressed successfully
		y, err := MakeEvent(x.MakeABCIEvent(), h)
		vfAssert(err == nil, "check-in-decodes")
		vfAssert(err != nil || (y.(*CheckIn).Sender == x.Sender && y.(*CheckIn).Height == h &&
			y.(*CheckIn).EncryptionPublicKey.X.Cmp(x.EncryptionPublicKey.X) == 0), "check-in-roundtrip")
		vfReach("check-in")
	case 1:
		n := vfLen("ngammas", vfParam("list", 2))
		g := shcrypto.Gammas{}
		for i := 0; i < n; i++ {
			g = append(g, vfTagged[vfP2](vfU64("gamma")))
		}
		vfGammaCount = n
		x := PolyCommitment{Eon: vfU64("eon"), Sender: vfAny[common.Address]("sender"), Gammas: &g}
		ev := x.MakeABCIEvent()
		vfAxiom(vfUFBool("gammas-on-curve", vfStubGammasMarshal(&g))) // the app only emits gammas it parsed successfully
		y, err := MakeEvent(ev, h)
		vfAssert(err == nil, "poly-commitment-decodes")
		if err == nil {
			yc := y.(*PolyCommitment)
			vfAssert(yc.Eon == x.Eon && yc.Sender == x.Sender && yc.Height == h && len(*yc.Gammas) == n, "poly-commitment-roundtrip")
			for i := 0; i < n && i < len(*yc.Gammas); i++ {
				vfAssert(vfTagOf((*yc.Gammas)[i]) == vfTagOf(g[i]), "gamma-roundtrip")
			}
		}
		vfReach("poly-commitment")
	case 2:
		x := Apology{Eon: vfU64("eon"), Sender: vfAny[common.Address]("sender"), Accusers: vfAddrs("accuser", vfParam("list", 2))}
		n := vfLen("nevals", vfParam("list", 2))
		for i := 0; i < n; i++ {
			// evaluations are whatever non-negative integer the sender put into the transaction
			// (the application does not range-check them): up to the 320 bits of the big.Int model
			ev := vfBig("eval")
			vfAssume(ev.Sign() >= 0)
			x.PolyEval = append(x.PolyEval, ev)
		}
		y, err := MakeEvent(x.MakeABCIEvent(), h)
		vfAssert(err == nil, "apology-decodes")
		if err == nil {
			ya := y.(*Apology)
			vfAssert(ya.Eon == x.Eon && ya.Sender == x.Sender && ya.Height == h && vfDeepEq(ya.Accusers, x.Accusers) && len(ya.PolyEval) == n, "apology-roundtrip")
			for i := 0; i < n && i < len(ya.PolyEval); i++ {
				vfAssert(ya.PolyEval[i].Cmp(x.PolyEval[i]) == 0, "apology-eval-roundtrip")
			}
		}
		vfReach("apology")
	}
}

// arbitrary events: the decoder is total and reports every failure as an error
func H_C14_decode_arbitrary() {
	// type and attribute keys are arbitrary strings (they may or may not equal the expected names)
	ev := abcitypes.Event{Type: vfAtom("type")}
	n := vfLen("nattrs", vfParam("attrs", 4))
	for i := 0; i < n; i++ {
		ev.Attributes = append(ev.Attributes, abcitypes.EventAttribute{Key: vfAtom("key"), Value: vfAtom("value"), Index: vfBool("index")})
	}
	vfGammaCount = vfLen("gammacount", 1)
	y, err := MakeEvent(ev, vfI64("height"))
	if err != nil {
		vfReach("error")
	} else {
		vfReach("decoded")
		vfAssert(y != nil, "event-on-success")
	}
}

// The Gammas attribute of a PolyCommitment event on arbitrary bytes (as hex text produced by the
// real encoder, so that counterexamples replay): malformed values are reported as an error, never
// a crash and never silently accepted.
func H_C14_gammas_attribute() {
	b := vfBytes("gammas-bytes", 17)
	vfGammaCount = vfLen("gammacount", 2)
	g, err := decodeGammas(hex.EncodeToString(b))
	if len(b) != 8*vfGammaCount || !vfUFBool("gammas-on-curve", b) {
		vfAssert(err != nil, "malformed-gammas-are-reported")
		vfReach("malformed")
	} else {
		vfAssert(err == nil && len(g) == vfGammaCount, "wellformed-gammas-are-decoded")
		vfReach("wellformed")
	}
}

package fx

import (
	"context"
	"crypto/ecdsa"
	"encoding/base64"

	"github.com/jackc/pgx/v4"
	abcitypes "github.com/tendermint/tendermint/abci/types"
	"github.com/tendermint/tendermint/rpc/client"
	coretypes "github.com/tendermint/tendermint/rpc/core/types"
	tmtypes "github.com/tendermint/tendermint/types"
	"google.golang.org/protobuf/proto"

	"github.com/shutter-network/rolling-shutter/rolling-shutter/keyper/database"
	"github.com/shutter-network/rolling-shutter/rolling-shutter/keyper/shutterevents/shtxresp"
	"github.com/shutter-network/rolling-shutter/rolling-shutter/shmsg"
)

// C08 (d), keyper side: the FIFO outbox is send-then-delete.

type vfRow struct {
	id      int32
	present bool
}

var vfOut struct {
	rows     []vfRow
	sent     []int32 // ids handed to the sender, in order
	accepted []bool  // per send: did the sender accept
	deleted  []int32
	current  int32
	dbErr    bool
}

//verif:stub (*github.com/shutter-network/rolling-shutter/rolling-shutter/keyper/database.Queries).GetNextShutterMessage sql=getNextShutterMessage
func vfStubNext(q *database.Queries, ctx context.Context) (database.TendermintOutgoingMessage, error) {
	// ORDER BY id LIMIT 1: the rows are kept in id order
	for _, r := range vfOut.rows {
		if r.present {
			vfOut.current = r.id
			return database.TendermintOutgoingMessage{ID: r.id, Description: "msg", Msg: []byte("encoded")}, nil
		}
	}
	return database.TendermintOutgoingMessage{}, pgx.ErrNoRows
}

//verif:stub (*github.com/shutter-network/rolling-shutter/rolling-shutter/keyper/database.Queries).DeleteShutterMessage sql=deleteShutterMessage
func vfStubDelete(q *database.Queries, ctx context.Context, id int32) error {
	if vfOut.dbErr {
		return vfErr("db")
	}
	for i := range vfOut.rows {
		if vfOut.rows[i].id == id {
			vfOut.rows[i].present = false
		}
	}
	vfOut.deleted = append(vfOut.deleted, id)
	return nil
}

//verif:stub google.golang.org/protobuf/proto.Unmarshal
func vfStubUnmarshal(b []byte, m proto.Message) error { return nil }

type vfSender struct{}

func (vfSender) SendMessage(ctx context.Context, m *shmsg.Message) error {
	vfOut.sent = append(vfOut.sent, vfOut.current)
	ok := vfBool("sender-accepts")
	vfOut.accepted = append(vfOut.accepted, ok)
	if !ok {
		return vfErr("refused")
	}
	return nil
}

func H_C08_outbox_send_then_delete() {
	n := vfLen("rows", vfParam("rows", 3))
	vfOut.rows, vfOut.sent, vfOut.accepted, vfOut.deleted = nil, nil, nil, nil
	vfOut.dbErr = vfBool("delete-fails")
	last := int32(-1)
	for i := 0; i < n; i++ {
		id := vfI32("row.id")
		vfAssume(id > last)
		last = id
		vfOut.rows = append(vfOut.rows, vfRow{id: id, present: true})
	}
	pre := append([]vfRow{}, vfOut.rows...)
	_ = SendShutterMessages(context.Background(), nil, vfSender{})
	// messages are handed over in id order, each at most once per call, starting at the head
	for i, id := range vfOut.sent {
		vfAssert(i < len(pre) && id == pre[i].id, "messages-sent-in-queue-order-from-the-head")
		if i+1 < len(vfOut.sent) {
			vfAssert(vfOut.accepted[i], "nothing-sent-past-a-refused-message")
		}
	}
	// a row disappears only after its message was accepted
	for i, r := range vfOut.rows {
		if !r.present {
			vfAssert(i < len(vfOut.sent) && vfOut.accepted[i], "row-deleted-only-after-an-accepted-send")
			vfReach("row-deleted")
		}
	}
	// every accepted message's row is deleted (unless the database failed), so it is not sent again
	if !vfOut.dbErr {
		for i := range vfOut.sent {
			if vfOut.accepted[i] {
				vfAssert(!vfOut.rows[i].present, "accepted-message-is-removed-from-the-outbox")
			}
		}
		if len(vfOut.sent) == n && n > 0 && vfOut.accepted[n-1] {
			vfReach("queue-drained")
		}
	}
	if len(vfOut.sent) > 0 && !vfOut.accepted[len(vfOut.sent)-1] {
		vfReach("stopped-at-refused-head")
		vfAssert(vfOut.rows[len(vfOut.sent)-1].present, "refused-message-stays-at-the-head")
	}
}

// classification of shuttermint's answer by the RPC sender

type vfClient struct {
	client.Client
}

var vfRes coretypes.ResultBroadcastTxCommit
var vfRPCErr bool

func (vfClient) BroadcastTxCommit(ctx context.Context, tx tmtypes.Tx) (*coretypes.ResultBroadcastTxCommit, error) {
	if vfRPCErr {
		return nil, vfErr("rpc")
	}
	return &vfRes, nil
}

//verif:stub github.com/shutter-network/rolling-shutter/rolling-shutter/shmsg.SignMessage
func vfStubSign(m proto.Message, k *ecdsa.PrivateKey) ([]byte, error) { return []byte("signed"), nil }

//verif:stub (*encoding/base64.Encoding).EncodeToString
func vfStubB64(e *base64.Encoding, b []byte) string { return "tx" }

//verif:stub github.com/shutter-network/rolling-shutter/rolling-shutter/keyper/fx.randomNonce
func vfStubRandomNonce() uint64 { return vfU64("nonce") }

func H_C08_sender_classification() {
	vfRes = coretypes.ResultBroadcastTxCommit{CheckTx: abcitypes.ResponseCheckTx{Code: vfU32("checktx.code")}, DeliverTx: abcitypes.ResponseDeliverTx{Code: vfU32("delivertx.code")}}
	vfRPCErr = vfBool("rpc-error")
	ms := &RPCMessageSender{rpcclient: vfClient{}, chainID: "chain"}
	err := ms.SendMessage(context.Background(), &shmsg.Message{})
	delivered := !vfRPCErr && vfRes.CheckTx.Code == 0 && vfRes.DeliverTx.Code != shtxresp.Error
	vfAssert((err == nil) == delivered, "delivered-iff-mempool-accepted-and-code-is-not-error")
	if err == nil {
		vfReach("classified-delivered")
	} else {
		vfReach("classified-failed")
	}
}

package medley

// C15(B): GetSyncRanges splits [start,end] into contiguous, gap-free, bounded ranges.

func H_C15B_syncranges() {
	k := uint64(vfParam("ranges", 4))
	start := vfU64("start")
	end := vfU64("end")
	maxRange := vfU64("maxRange")
	vfAssume(end < 1<<63)
	vfAssume(maxRange >= 1 && maxRange <= 1<<32)
	vfAssume(start > end || end-start < k*maxRange) // bound: at most k ranges (no symbolic division)
	rs := GetSyncRanges(start, end, maxRange)
	if start > end {
		vfAssert(len(rs) == 0, "empty-when-start-after-end")
		vfReach("empty")
		return
	}
	vfAssert(len(rs) >= 1, "non-empty")
	vfAssert(rs[0][0] == start, "starts-at-start")
	vfAssert(rs[len(rs)-1][1] == end, "ends-at-end")
	for i := 0; i < len(rs); i++ {
		vfAssert(rs[i][0] <= rs[i][1], "range-non-empty")
		vfAssert(rs[i][1]-rs[i][0] < maxRange, "range-size")
		if i > 0 {
			vfAssert(rs[i][0] == rs[i-1][1]+1, "contiguous")
		}
	}
	if uint64(len(rs)) == k {
		vfReach("max-ranges")
	}
}

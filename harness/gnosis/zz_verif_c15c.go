package gnosis

import (
	"context"
	"math/big"

	"github.com/ethereum/go-ethereum/common"
	"github.com/ethereum/go-ethereum/core/types"
	"github.com/ethereum/go-ethereum/ethclient"
	"github.com/jackc/pgconn"
	"github.com/jackc/pgx/v4"
	"github.com/jackc/pgx/v4/pgxpool"

	sequencerBindings "github.com/shutter-network/gnosh-contracts/gnoshcontracts/sequencer"

	"github.com/shutter-network/rolling-shutter/rolling-shutter/keyperimpl/gnosis/database"
)

// C15 (C): inductive step of the Gnosis sequencer syncer (same harness shape as the registry syncer) over a symbolic chain oracle, with the event
// table projected onto one arbitrary ("Skolem") height h.
//
// Chains: A is the chain the syncer has followed so far, B the canonical chain the new head lies
// on; they agree up to the fork point f (B == A when there is no fork). Invariant Inv(X): if the
// stored position (number, hash) is canonical on X and syncStart <= h <= number, then the table
// holds a row for block h iff canonical block h of X has an admissible event, and that row is X's.

type vfOracleT struct {
	h        uint64 // the distinguished height
	start    uint64 // sync start block
	fork     uint64 // A and B agree on blocks <= fork (no fork: fork >= every height looked at)
	evA, evB bool   // block h has an admissible registration event on A / on B
}

type vfRegTabT struct {
	hasPos      bool
	pos         int64
	hashOnA     bool // stored hash is A's hash of block pos
	hashOnB     bool
	row         bool // a row for block h exists
	rowFromA    bool // ... taken from A's block h
	rowFromB    bool
}

var (
	vfOr     vfOracleT
	vfRT     vfRegTabT
	vfTxFail []bool // per BeginFunc call: does the transaction fail (connection loss, crash before commit)
	vfTxNo   int
	vfRPCFailAt int // index of the RPC call that fails (-1: none)
	vfRPCNo     int
	vfOtherUsed bool
)

func vfRPCFails() bool {
	k := vfRPCNo
	vfRPCNo++
	return k == vfRPCFailAt
}

func vfSameOnBoth(n uint64) bool { return n <= vfOr.fork }

// the iterator drain is not executed: the stub returns the admissible events of B in [start,end]
//
//verif:stub (*github.com/shutter-network/rolling-shutter/rolling-shutter/keyperimpl/gnosis.SequencerSyncer).fetchEvents
func vfStubFetchReg(s *SequencerSyncer, ctx context.Context, start, end uint64) ([]*sequencerBindings.SequencerTransactionSubmitted, error) {
	if vfRPCFails() {
		return nil, vfErr("rpc")
	}
	out := []*sequencerBindings.SequencerTransactionSubmitted{}
	if vfParam("other", 0) == 1 && !vfOtherUsed && vfBool("other-event") { // some other event of the range (not at h)
		vfOtherUsed = true
		b := vfU64("other-event.block")
		vfAssume(b >= start && b <= end && b != vfOr.h)
		out = append(out, &sequencerBindings.SequencerTransactionSubmitted{Eon: vfU64("other-event.eon"), GasLimit: big.NewInt(21000), Raw: types.Log{BlockNumber: b}})
	}
	if vfOr.evB && start <= vfOr.h && vfOr.h <= end {
		out = append(out, &sequencerBindings.SequencerTransactionSubmitted{Eon: 1, GasLimit: big.NewInt(21000), Raw: types.Log{BlockNumber: vfOr.h}})
	}
	return out, nil
}

//verif:stub (*github.com/ethereum/go-ethereum/ethclient.Client).HeaderByNumber
func vfStubHeaderByNumberC(c *ethclient.Client, ctx context.Context, n *big.Int) (*types.Header, error) {
	if vfRPCFails() {
		return nil, vfErr("rpc")
	}
	return &types.Header{Number: n}, nil // B's block n
}

// hashes are abstract: a header obtained from the RPC is B's block of that number
//
//verif:stub (*github.com/ethereum/go-ethereum/core/types.Header).Hash
func vfStubHashC(h *types.Header) common.Hash {
	var out common.Hash
	out[0] = 0xB
	return out
}

//verif:stub github.com/ethereum/go-ethereum/crypto.Keccak256
func vfStubKeccakC(data ...[]byte) []byte { return []byte("identity") }

// a distinguished transaction handle: every write of a sync step must go through it
type vfSqTxT struct{ pgx.Tx }

var vfSqInTx *vfSqTxT

func vfSqThroughTx(q *database.Queries) {
	vfAssert(vfSqInTx != nil && vfDeepEq(q, database.New(vfSqInTx)), "writes-go-through-the-sync-transaction")
}

//verif:stub (*github.com/jackc/pgx/v4/pgxpool.Pool).BeginFunc
func vfStubBeginFuncC(p *pgxpool.Pool, ctx context.Context, f func(pgx.Tx) error) error {
	snapshot := vfRT
	fail := false
	if vfTxNo < len(vfTxFail) {
		fail = vfTxFail[vfTxNo]
	}
	vfTxNo++
	vfSqInTx = &vfSqTxT{}
	err := f(vfSqInTx)
	vfSqInTx = nil
	if err != nil || fail {
		vfRT = snapshot // atomicity: nothing of a failed transaction is applied
		if err == nil {
			err = vfErr("tx failed")
		}
		return err
	}
	return nil
}

//verif:stub (*github.com/shutter-network/rolling-shutter/rolling-shutter/keyperimpl/gnosis/database.Queries).GetTransactionSubmittedEventsSyncedUntil sql=getTransactionSubmittedEventsSyncedUntil
func vfStubGetSyncedUntil(q *database.Queries, ctx context.Context) (database.TransactionSubmittedEventsSyncedUntil, error) {
	if !vfRT.hasPos {
		return database.TransactionSubmittedEventsSyncedUntil{}, pgx.ErrNoRows
	}
	hash := []byte{0}
	if vfRT.hashOnB {
		hash = []byte{0xB, 0, 0, 0, 0, 0, 0, 0, 0, 0, 0, 0, 0, 0, 0, 0, 0, 0, 0, 0, 0, 0, 0, 0, 0, 0, 0, 0, 0, 0, 0, 0}
	} else if vfRT.hashOnA {
		hash = []byte{0xA}
	}
	return database.TransactionSubmittedEventsSyncedUntil{BlockNumber: vfRT.pos, BlockHash: hash}, nil
}

//verif:stub (*github.com/shutter-network/rolling-shutter/rolling-shutter/keyperimpl/gnosis/database.Queries).SetTransactionSubmittedEventsSyncedUntil sql=setTransactionSubmittedEventsSyncedUntil
func vfStubSetSyncedUntil(q *database.Queries, ctx context.Context, arg database.SetTransactionSubmittedEventsSyncedUntilParams) error {
	vfSqThroughTx(q)
	vfRT.hasPos, vfRT.pos = true, arg.BlockNumber
	vfRT.hashOnB = len(arg.BlockHash) == 32 && arg.BlockHash[0] == 0xB
	vfRT.hashOnA = vfRT.hashOnB && arg.BlockNumber >= 0 && vfSameOnBoth(uint64(arg.BlockNumber))
	return nil
}

//verif:stub (*github.com/shutter-network/rolling-shutter/rolling-shutter/keyperimpl/gnosis/database.Queries).DeleteTransactionSubmittedEventsFromBlockNumber sql=deleteTransactionSubmittedEventsFromBlockNumber
func vfStubDeleteFrom(q *database.Queries, ctx context.Context, from int64) error {
	vfSqThroughTx(q)
	if int64(vfOr.h) >= from {
		vfRT.row, vfRT.rowFromA, vfRT.rowFromB = false, false, false
	}
	return nil
}

//verif:stub (*github.com/shutter-network/rolling-shutter/rolling-shutter/keyperimpl/gnosis/database.Queries).InsertTransactionSubmittedEvent sql=insertTransactionSubmittedEvent
func vfStubInsertRegEvent(q *database.Queries, ctx context.Context, arg database.InsertTransactionSubmittedEventParams) (pgconn.CommandTag, error) {
	vfSqThroughTx(q)
	if arg.BlockNumber == int64(vfOr.h) {
		vfRT.row, vfRT.rowFromB = true, true
		vfRT.rowFromA = vfSameOnBoth(vfOr.h)
	}
	return nil, nil
}

// follows(X): the table reflects chain X up to the stored position (whatever hash is stored)
func vfFollows(onB bool) bool {
	if !vfRT.hasPos || vfRT.pos < 0 {
		return !vfRT.row
	}
	if vfOr.h < vfOr.start || vfOr.h > uint64(vfRT.pos) {
		return !vfRT.row || vfOr.h < vfOr.start // rows never lie above the position
	}
	ev, from := vfOr.evA, vfRT.rowFromA
	if onB {
		ev, from = vfOr.evB, vfRT.rowFromB
	}
	if ev {
		return vfRT.row && from
	}
	return !vfRT.row
}

// the property: whenever the stored position is canonical (on B), the stored events are B's
func vfInvB() bool {
	if !vfRT.hasPos || !vfRT.hashOnB || vfRT.pos < 0 {
		return true
	}
	if vfOr.h < vfOr.start || vfOr.h > uint64(vfRT.pos) {
		return true
	}
	if vfOr.evB {
		return vfRT.row && vfRT.rowFromB
	}
	return !vfRT.row
}

func H_C15C_sequencer_sync_step() {
	o := &vfOr
	o.h, o.start, o.fork = vfU64("h"), vfU64("sync-start"), vfU64("fork-point")
	o.evA, o.evB = vfBool("event-at-h.A"), vfBool("event-at-h.B")
	vfAssume(o.h < 1<<40 && o.start < 1<<40)
	vfAssume(!vfSameOnBoth(o.h) || o.evA == o.evB) // common blocks carry the same events
	// arbitrary pre-state satisfying the invariant on A
	vfRT = vfRegTabT{hasPos: vfBool("pre.has-position"), pos: vfI64("pre.position"), hashOnA: vfBool("pre.hash-canonical"),
		row: vfBool("pre.row"), rowFromA: vfBool("pre.row-from-A")}
	vfAssume(vfRT.pos >= 0 && vfRT.pos < 1<<40)
	vfAssume(!vfRT.hasPos || uint64(vfRT.pos)+1 >= o.start) // the position never lies before the sync start
	vfAssume(vfRT.hasPos || !vfRT.row)
	vfAssume(!vfRT.rowFromA || vfRT.row)
	vfRT.rowFromB = vfRT.rowFromA && vfSameOnBoth(o.h)
	vfRT.hashOnB = vfRT.hashOnA && vfSameOnBoth(uint64(vfRT.pos))
	// strengthened invariant: the table reflects the chain followed so far (A) up to the position,
	// whatever hash is stored (the hash is empty right after a rollback)
	vfAssume(vfFollows(false))
	pre := vfRT

	// the observed head: block N of chain B
	N := vfU64("head.number")
	vfAssume(N < 1<<40)
	head := &types.Header{Number: new(big.Int).SetUint64(N)}
	parentIsStored := vfBool("head.parent-is-stored-hash")
	if parentIsStored {
		head.ParentHash[0] = 0xB
	}
	if pre.hasPos {
		// consistency of the oracle: the head's parent is the stored block iff that block is on B
		vfAssume(N != uint64(pre.pos)+1 || parentIsStored == pre.hashOnB)
		// statement's assumption on forks: no deeper than the assumed reorg depth, and the first
		// new head is at most one past the synced block
		if !vfSameOnBoth(uint64(pre.pos)) {
			vfAssume(o.fork+uint64(AssumedReorgDepth) >= uint64(pre.pos) && N <= uint64(pre.pos)+1)
		}
	}
	// bound: at most two ranges per Sync
	first := o.start
	if pre.hasPos {
		first = uint64(pre.pos) + 1
	}
	vfAssume(N < first || N-first < 2*maxRequestBlockRange)
	vfTxFail = []bool{vfBool("tx0-fails"), vfBool("tx1-fails"), vfParam("tx2", 0) == 1 && vfBool("tx2-fails")}
	vfTxNo, vfRPCNo, vfOtherUsed = 0, 0, false
	vfRPCFailAt = vfInt("rpc-fails-at")
	vfAssume(vfRPCFailAt >= -1 && vfRPCFailAt < vfParam("rpcfail", 2))

	s := &SequencerSyncer{SyncStartBlockNumber: o.start, SecondsPerSlot: 5}
	err := s.Sync(context.Background(), head)
	vfAssert(vfInvB(), "stored-events-equal-canonical-events-whenever-the-position-is-canonical")
	// inductive part: afterwards the table reflects the canonical chain B up to the new position,
	// or nothing at all was changed
	vfAssert(vfFollows(true) || (vfRT == pre && vfFollows(false)), "table-follows-one-chain-up-to-the-position")
	if err == nil && vfRT.hasPos && vfRT.pos == int64(N) && N >= first {
		vfReach("synced-to-head")
	}
	if err != nil {
		vfReach("sync-error")
	}
	if pre.hasPos && vfRT.hasPos && vfRT.pos < pre.pos {
		vfReach("rolled-back")
	}
}

package gnosis

import (
	"github.com/ethereum/go-ethereum/common"
	pubsub "github.com/libp2p/go-libp2p-pubsub"

	obskeyperdatabase "github.com/shutter-network/rolling-shutter/rolling-shutter/chainobserver/db/keyper"
	"github.com/shutter-network/rolling-shutter/rolling-shutter/keyperimpl/gnosis/gnosisssztypes"
	"github.com/shutter-network/rolling-shutter/rolling-shutter/p2pmsg"
	"github.com/shutter-network/rolling-shutter/rolling-shutter/shdb"
)

// C06 (Gnosis): a keys message passes the signature rule iff it names exactly threshold
// signers, strictly increasing and in range, with exactly one signature per signer, each
// recovering to that keyper over (instance, eon, slot, tx pointer, identities).
func H_C06_gnosis_signatures() {
	n := 1 + vfLen("nkeypers", vfParam("keypers", 3)-1)
	var addrs []common.Address
	ks := &obskeyperdatabase.KeyperSet{Threshold: vfI32("threshold")}
	for i := 0; i < n; i++ {
		a := vfAny[common.Address]("keyper")
		addrs = append(addrs, a)
		ks.Keypers = append(ks.Keypers, shdb.EncodeAddress(a))
	}
	extra := &p2pmsg.GnosisDecryptionKeysExtra{Slot: vfU64("slot"), TxPointer: vfU64("txpointer")}
	ns := vfLen("nsigners", n+1)
	for i := 0; i < ns; i++ {
		extra.SignerIndices = append(extra.SignerIndices, vfU64("signer"))
	}
	nsig := vfLen("nsignatures", n+1)
	for i := 0; i < nsig; i++ {
		extra.Signatures = append(extra.Signatures, vfBytes("signature", 2))
	}
	keys := &p2pmsg.DecryptionKeys{InstanceId: vfU64("instance"), Eon: vfU64("eon")}
	nk := 1 + vfLen("nkeys", vfParam("keys", 2)-1)
	for i := 0; i < nk; i++ {
		// identities are 52 bytes in the Gnosis flavour; other lengths make the signed tuple unhashable
		id := vfBytesN("identity", 52)
		if vfBool("identity-short") {
			id = id[:51]
		}
		keys.Keys = append(keys.Keys, &p2pmsg.Key{IdentityPreimage: id, Key: vfBytes("key", 2)})
	}

	res, _ := ValidateDecryptionKeysSignatures(keys, extra, ks)

	// reference
	ref := int32(ns) == ks.Threshold && nsig == ns
	for i := 0; i < ns && ref; i++ {
		if extra.SignerIndices[i] >= uint64(n) || (i > 0 && extra.SignerIndices[i] <= extra.SignerIndices[i-1]) {
			ref = false
		}
	}
	if ref {
		tuple := &gnosisssztypes.SlotDecryptionSignatureData{InstanceID: keys.InstanceId, Eon: keys.Eon, Slot: extra.Slot, TxPointer: extra.TxPointer}
		for _, k := range keys.Keys {
			tuple.IdentityPreimages = append(tuple.IdentityPreimages, gnosisssztypes.IdentityPreimage{Bytes: k.IdentityPreimage})
		}
		h, err := tuple.HashTreeRoot()
		if err != nil {
			// an unhashable tuple: nothing can be checked, but then nothing needs checking either
			ref = ns == 0
		} else {
			for i := 0; i < ns && ref; i++ {
				a, ok := vfRecovered(h, extra.Signatures[i])
				if !ok || a != addrs[extra.SignerIndices[i]] {
					ref = false
				}
			}
		}
	}
	vfAssert(res == pubsub.ValidationAccept || res == pubsub.ValidationReject, "verdict-is-accept-or-reject")
	vfAssert((res == pubsub.ValidationAccept) == ref, "accept-iff-threshold-of-genuine-signatures")
	if res == pubsub.ValidationAccept {
		vfReach("accept")
		if ns > 0 {
			vfReach("accept-with-signers")
		}
	} else {
		vfReach("reject")
	}
}

package gnosis

import (
	"context"

	"github.com/ethereum/go-ethereum/common"
	"github.com/jackc/pgx/v4"
	pubsub "github.com/libp2p/go-libp2p-pubsub"

	obskeyperdatabase "github.com/shutter-network/rolling-shutter/rolling-shutter/chainobserver/db/keyper"
	corekeyperdatabase "github.com/shutter-network/rolling-shutter/rolling-shutter/keyper/database"
	"github.com/shutter-network/rolling-shutter/rolling-shutter/keyperimpl/gnosis/database"
	"github.com/shutter-network/rolling-shutter/rolling-shutter/p2pmsg"
	"github.com/shutter-network/rolling-shutter/rolling-shutter/shdb"
)

// C05 (Gnosis): ValidateMessage, then (if accepted) HandleMessage, on an arbitrary decoded
// message of the handler's type against arbitrary database answers: no panic.

var vfG struct {
	setMissing bool
	set        obskeyperdatabase.KeyperSet
	sigRows    int
	writes     int
	pointer    int64
	pointerSet bool
	askedIdx   int64
}

//verif:stub (*github.com/shutter-network/rolling-shutter/rolling-shutter/chainobserver/db/keyper.Queries).GetKeyperSetByKeyperConfigIndex sql=getKeyperSetByKeyperConfigIndex
func vfStubGetKeyperSet(q *obskeyperdatabase.Queries, ctx context.Context, idx int64) (obskeyperdatabase.KeyperSet, error) {
	vfG.askedIdx = idx
	if vfG.setMissing {
		return obskeyperdatabase.KeyperSet{}, pgx.ErrNoRows
	}
	return vfG.set, nil
}

//verif:stub (*github.com/shutter-network/rolling-shutter/rolling-shutter/keyperimpl/gnosis/database.Queries).InsertSlotDecryptionSignature sql=insertSlotDecryptionSignature
func vfStubInsertSlotSig(q *database.Queries, ctx context.Context, arg database.InsertSlotDecryptionSignatureParams) error {
	vfG.writes++
	if vfBool("db.insert-sig-fails") {
		return vfErr("db")
	}
	return nil
}

//verif:stub (*github.com/shutter-network/rolling-shutter/rolling-shutter/keyperimpl/gnosis/database.Queries).GetSlotDecryptionSignatures sql=getSlotDecryptionSignatures
func vfStubGetSlotSigs(q *database.Queries, ctx context.Context, arg database.GetSlotDecryptionSignaturesParams) ([]database.SlotDecryptionSignature, error) {
	if vfBool("db.get-sigs-fails") {
		return nil, vfErr("db")
	}
	// contract: at most LIMIT rows, ordered by keyper index; any number of rows up to the bound
	var rows []database.SlotDecryptionSignature
	n := vfLen("db.sigrows", vfG.sigRows)
	for i := 0; i < n; i++ {
		rows = append(rows, database.SlotDecryptionSignature{Eon: arg.Eon, Slot: arg.Slot, KeyperIndex: vfI64("db.sig.keyper"),
			TxPointer: arg.TxPointer, IdentitiesHash: arg.IdentitiesHash, Signature: vfBytes("db.sig.signature", 2)})
	}
	vfAssume(arg.Limit < 0 || int64(n) <= int64(arg.Limit))
	return rows, nil
}

//verif:stub (*github.com/shutter-network/rolling-shutter/rolling-shutter/keyper/database.Queries).GetDecryptionKey sql=getDecryptionKey
func vfStubGetDecryptionKey(q *corekeyperdatabase.Queries, ctx context.Context, arg corekeyperdatabase.GetDecryptionKeyParams) (corekeyperdatabase.DecryptionKey, error) {
	if vfBool("db.key-missing") {
		return corekeyperdatabase.DecryptionKey{}, pgx.ErrNoRows
	}
	if vfBool("db.key-error") {
		return corekeyperdatabase.DecryptionKey{}, vfErr("db")
	}
	return corekeyperdatabase.DecryptionKey{Eon: arg.Eon, EpochID: arg.EpochID, DecryptionKey: vfBytes("db.key", 2)}, nil
}

//verif:stub (*github.com/shutter-network/rolling-shutter/rolling-shutter/keyperimpl/gnosis/database.Queries).SetTxPointer sql=setTxPointer
func vfStubSetTxPointer(q *database.Queries, ctx context.Context, arg database.SetTxPointerParams) error {
	vfG.writes++
	vfG.pointer, vfG.pointerSet = arg.Value, arg.Age.Valid && arg.Age.Int64 == 0
	if vfBool("db.set-pointer-fails") {
		return vfErr("db")
	}
	return nil
}

//verif:stub github.com/ethereum/go-ethereum/crypto.Keccak256
func vfStubKeccak(data ...[]byte) []byte { return vfBytesN("keccak", 32) }

func vfKeyperSet(n int) {
	vfG.setMissing = vfBool("db.set-missing")
	vfG.set = obskeyperdatabase.KeyperSet{KeyperConfigIndex: vfI64("set.index"), Threshold: vfI32("set.threshold")}
	k := vfLen("set.nkeypers", n)
	for i := 0; i < k; i++ {
		if vfBool("set.keyper-malformed") {
			vfG.set.Keypers = append(vfG.set.Keypers, vfAtom("set.badkeyper"))
		} else {
			vfG.set.Keypers = append(vfG.set.Keypers, shdb.EncodeAddress(vfAny[common.Address]("set.keyper")))
		}
	}
	vfG.writes = 0
}


func H_C05_gnosis_shares() {
	list := vfParam("list", 2)
	vfKeyperSet(vfParam("keypers", 2))
	vfG.sigRows = vfParam("sigrows", 2)
	msg := &p2pmsg.DecryptionKeyShares{InstanceId: vfU64("instance"), Eon: vfU64("eon"), KeyperIndex: vfU64("keyperindex")}
	n := vfLen("nshares", list)
	for i := 0; i < n; i++ {
		msg.Shares = append(msg.Shares, &p2pmsg.KeyShare{IdentityPreimage: vfBytes("identity", 53), Share: vfBytes("share", 2)})
	}
	switch vfLen("extra-kind", 3) {
	case 0:
		msg.Extra = &p2pmsg.DecryptionKeyShares_Gnosis{Gnosis: &p2pmsg.GnosisDecryptionKeySharesExtra{
			Slot: vfU64("slot"), TxPointer: vfU64("txpointer"), Signature: vfBytes("signature", 2)}}
	case 1:
		msg.Extra = &p2pmsg.DecryptionKeyShares_Gnosis{} // nil inner message
	case 2:
		msg.Extra = &p2pmsg.DecryptionKeyShares_Service{Service: &p2pmsg.ShutterServiceDecryptionKeySharesExtra{Signature: vfBytes("signature", 2)}}
	}
	h := &DecryptionKeySharesHandler{}
	res, _ := h.ValidateMessage(context.Background(), msg)
	if res != pubsub.ValidationAccept {
		vfAssert(vfG.writes == 0, "rejected-message-writes-nothing")
		vfReach("rejected")
		return
	}
	vfReach("accepted")
	out, err := h.HandleMessage(context.Background(), msg)
	if err == nil && len(out) > 0 {
		vfReach("keys-produced")
		km := out[0].(*p2pmsg.DecryptionKeys)
		ex := km.Extra.(*p2pmsg.DecryptionKeys_Gnosis).Gnosis
		vfAssert(len(ex.Signatures) == len(ex.SignerIndices), "produced-keys-message-has-one-signature-per-signer")
	}
}

func H_C05_gnosis_keys() {
	list := vfParam("list", 2)
	vfKeyperSet(vfParam("keypers", 2))
	msg := &p2pmsg.DecryptionKeys{InstanceId: vfU64("instance"), Eon: vfU64("eon")}
	n := vfLen("nkeys", list)
	for i := 0; i < n; i++ {
		msg.Keys = append(msg.Keys, &p2pmsg.Key{IdentityPreimage: vfBytes("identity", 53), Key: vfBytes("key", 2)})
	}
	mk := func() *p2pmsg.GnosisDecryptionKeysExtra {
		ex := &p2pmsg.GnosisDecryptionKeysExtra{Slot: vfU64("slot"), TxPointer: vfU64("txpointer")}
		ns := vfLen("nsigners", list+1)
		for i := 0; i < ns; i++ {
			ex.SignerIndices = append(ex.SignerIndices, vfU64("signer"))
		}
		nsig := vfLen("nsignatures", list+1)
		for i := 0; i < nsig; i++ {
			ex.Signatures = append(ex.Signatures, vfBytes("signature", 2))
		}
		return ex
	}
	switch vfLen("extra-kind", 3) {
	case 0:
		msg.Extra = &p2pmsg.DecryptionKeys_Gnosis{Gnosis: mk()}
	case 1:
		msg.Extra = &p2pmsg.DecryptionKeys_Gnosis{}
	case 2:
		msg.Extra = &p2pmsg.DecryptionKeys_Service{Service: &p2pmsg.ShutterServiceDecryptionKeysExtra{}}
	}
	h := &DecryptionKeysHandler{}
	res, _ := h.ValidateMessage(context.Background(), msg)
	if res != pubsub.ValidationAccept {
		vfAssert(vfG.writes == 0, "rejected-message-writes-nothing")
		vfReach("rejected")
		return
	}
	vfReach("accepted")
	ex := msg.Extra.(*p2pmsg.DecryptionKeys_Gnosis).Gnosis
	// C06 at the level of the handler: an accepted message passes the (separately checked)
	// signature kernel against the keyper set stored for the message's own eon
	vfAssert(!vfG.setMissing && vfG.askedIdx == int64(msg.Eon), "keyper-set-of-the-message-eon-is-consulted")
	basic, _ := ValidateDecryptionKeysBasic(msg)
	ref, _ := ValidateDecryptionKeysSignatures(msg, ex, &vfG.set)
	vfAssert(basic == pubsub.ValidationAccept && ref == pubsub.ValidationAccept, "accepted-keys-message-carries-a-threshold-of-genuine-signatures")
	_, err := h.HandleMessage(context.Background(), msg)
	if err == nil {
		vfReach("handled")
		// C19: pointer after a keys message releasing k identities at pointer p is p+k-1, age zero
		vfAssert(vfG.pointerSet && vfG.pointer == int64(ex.TxPointer)+int64(len(msg.Keys))-1, "tx-pointer-advanced-to-p-plus-k-minus-1-age-zero")
	}
}

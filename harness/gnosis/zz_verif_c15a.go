package gnosis

import (
	"bytes"

	"github.com/ethereum/go-ethereum/common"
	"github.com/ethereum/go-ethereum/core/types"

	"github.com/shutter-network/rolling-shutter/rolling-shutter/keyperimpl/gnosis/database"
)

// C15(A): reorg depth of the Gnosis sequencer syncer.
func H_C15A_sequencer_reorg_depth() {
	n := vfI64("header.number")
	vfAssume(n >= 0)
	h := &types.Header{Number: vfBig("header.bignumber"), ParentHash: vfAny[common.Hash]("header.parent")}
	vfAssume(h.Number.IsInt64() && h.Number.Int64() == n)
	s := &database.TransactionSubmittedEventsSyncedUntil{BlockNumber: vfI64("synced.number"), BlockHash: vfBytes("synced.hash", 33)}
	vfAssume(s.BlockNumber >= 0 && s.BlockNumber < 1<<62)
	got := getNumReorgedBlocks(s, h)
	want := 0
	if n == s.BlockNumber+1 && !bytes.Equal(h.ParentHash[:], s.BlockHash) {
		want = AssumedReorgDepth
		if s.BlockNumber < int64(AssumedReorgDepth) {
			want = int(s.BlockNumber)
		}
		vfReach("reorg")
	} else {
		vfReach("no-reorg")
	}
	vfAssert(got == want, "reorg-depth-equals-reference")
	vfAssert(got >= 0 && int64(got) <= s.BlockNumber, "never-rolls-back-before-genesis")
}

package gnosis

import (
	"context"

	"github.com/ethereum/go-ethereum/accounts/abi/bind"
	"github.com/ethereum/go-ethereum/core/types"

	sequencerBindings "github.com/shutter-network/gnosh-contracts/gnoshcontracts/sequencer"
)

// C15 (fetch step, Gnosis sequencer): see harness/shutterservice/zz_verif_c15f.go.

var vfFetchS struct {
	start   uint64
	end     uint64
	endSet  bool
	calls   int
	fail    bool
	k, i    int
	iterErr bool
	evs     []*sequencerBindings.SequencerTransactionSubmitted
}

//verif:stub (*github.com/shutter-network/gnosh-contracts/gnoshcontracts/sequencer.SequencerFilterer).FilterTransactionSubmitted
func vfStubFilterSeq(f *sequencerBindings.SequencerFilterer, opts *bind.FilterOpts) (*sequencerBindings.SequencerTransactionSubmittedIterator, error) {
	vfFetchS.calls++
	vfFetchS.start = opts.Start
	vfFetchS.endSet = opts.End != nil
	if opts.End != nil {
		vfFetchS.end = *opts.End
	}
	if vfFetchS.fail {
		return nil, vfErr("rpc")
	}
	return &sequencerBindings.SequencerTransactionSubmittedIterator{}, nil
}

//verif:stub (*github.com/shutter-network/gnosh-contracts/gnoshcontracts/sequencer.SequencerTransactionSubmittedIterator).Next
func vfStubSeqNext(it *sequencerBindings.SequencerTransactionSubmittedIterator) bool {
	if vfFetchS.i >= vfFetchS.k {
		return false
	}
	it.Event = vfFetchS.evs[vfFetchS.i]
	vfFetchS.i++
	return true
}

//verif:stub (*github.com/shutter-network/gnosh-contracts/gnoshcontracts/sequencer.SequencerTransactionSubmittedIterator).Error
func vfStubSeqErr(it *sequencerBindings.SequencerTransactionSubmittedIterator) error {
	if vfFetchS.iterErr {
		return vfErr("iterator")
	}
	return nil
}

func H_C15_sequencer_fetch_range() {
	start, end := vfU64("start"), vfU64("end")
	vfFetchS.calls, vfFetchS.i, vfFetchS.endSet = 0, 0, false
	vfFetchS.fail, vfFetchS.iterErr = vfBool("filter-call-fails"), vfBool("iterator-fails")
	vfFetchS.k = vfLen("events", vfParam("events", 3))
	vfFetchS.evs = nil
	for i := 0; i < vfFetchS.k; i++ {
		vfFetchS.evs = append(vfFetchS.evs, &sequencerBindings.SequencerTransactionSubmitted{Eon: vfU64("event.eon"), Raw: types.Log{BlockNumber: vfU64("event.block")}})
	}
	s := &SequencerSyncer{Contract: &sequencerBindings.Sequencer{}}
	evs, err := s.fetchEvents(context.Background(), start, end)
	vfAssert(vfFetchS.calls == 1 && vfFetchS.start == start && vfFetchS.endSet && vfFetchS.end == end, "node-is-asked-for-exactly-the-given-block-range")
	if vfFetchS.fail || vfFetchS.iterErr {
		vfAssert(err != nil, "fetch-failure-is-reported")
		vfReach("failed")
		return
	}
	vfAssert(err == nil && len(evs) == vfFetchS.k, "every-event-of-the-range-is-returned")
	for i := range evs {
		if i < vfFetchS.k {
			vfAssert(evs[i] == vfFetchS.evs[i], "events-in-log-order")
		}
	}
	vfReach("fetched")
}

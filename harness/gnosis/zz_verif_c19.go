package gnosis

import (
	"bytes"
	"context"
	"database/sql"

	"github.com/ethereum/go-ethereum/common"
	"github.com/jackc/pgx/v4"

	obskeyper "github.com/shutter-network/rolling-shutter/rolling-shutter/chainobserver/db/keyper"
	corekeyperdatabase "github.com/shutter-network/rolling-shutter/rolling-shutter/keyper/database"
	"github.com/shutter-network/rolling-shutter/rolling-shutter/keyper/epochkghandler"
	"github.com/shutter-network/rolling-shutter/rolling-shutter/keyperimpl/gnosis/database"
	"github.com/shutter-network/rolling-shutter/rolling-shutter/medley/broker"
	"github.com/shutter-network/rolling-shutter/rolling-shutter/medley/identitypreimage"
	"github.com/shutter-network/rolling-shutter/rolling-shutter/p2pmsg"
	"github.com/shutter-network/rolling-shutter/rolling-shutter/shdb"
)

// C19: the identities requested for a slot and the transaction pointer.

var vfQ struct {
	rows       []database.TransactionSubmittedEvent
	limitSeen  int32
	indexSeen  int64
	ptrRow     bool
	ptrErr     bool
	ptr        database.TxPointer
	count      int64
	setCalls   int
	setValue   int64
	setAge     sql.NullInt64
	keyed      bool  // the harness checks under which key the per-eon tables are addressed
	key        int64 // ... the key they must be addressed by (the keyper config index)
}

// the pointer, the queue and the queue length are kept per keyper set: tx_pointer.eon,
// transaction_submitted_event.eon hold the keyper CONFIG INDEX (what keys messages carry and
// what advances the pointer), not the eon number, which differs after a restarted key generation
func vfTableKey(eon int64) {
	if vfQ.keyed {
		vfAssert(eon == vfQ.key, "per-keyper-set-tables-are-addressed-by-the-keyper-config-index")
	}
}

//verif:stub (*github.com/shutter-network/rolling-shutter/rolling-shutter/keyperimpl/gnosis/database.Queries).GetTransactionSubmittedEvents sql=getTransactionSubmittedEvents
func vfStubGetEvents(q *database.Queries, ctx context.Context, arg database.GetTransactionSubmittedEventsParams) ([]database.TransactionSubmittedEvent, error) {
	vfQ.limitSeen, vfQ.indexSeen = arg.Limit, arg.Index
	vfTableKey(arg.Eon)
	// contract: rows with index >= arg.Index in index order, at most LIMIT of them
	vfAssume(int64(len(vfQ.rows)) <= int64(arg.Limit))
	return vfQ.rows, nil
}

//verif:stub (*github.com/shutter-network/rolling-shutter/rolling-shutter/keyperimpl/gnosis/database.Queries).GetTxPointer sql=getTxPointer
func vfStubGetTxPointer(q *database.Queries, ctx context.Context, eon int64) (database.TxPointer, error) {
	vfTableKey(eon)
	if vfQ.ptrErr {
		return database.TxPointer{}, vfErr("db")
	}
	if !vfQ.ptrRow {
		return database.TxPointer{}, pgx.ErrNoRows
	}
	return vfQ.ptr, nil
}

//verif:stub (*github.com/shutter-network/rolling-shutter/rolling-shutter/keyperimpl/gnosis/database.Queries).SetTxPointer sql=setTxPointer
func vfStubSetPtr(q *database.Queries, ctx context.Context, arg database.SetTxPointerParams) error {
	vfQ.setCalls++
	vfQ.setValue, vfQ.setAge = arg.Value, arg.Age
	vfTableKey(arg.Eon)
	return nil
}

//verif:stub (*github.com/shutter-network/rolling-shutter/rolling-shutter/keyperimpl/gnosis/database.Queries).GetTransactionSubmittedEventCount sql=getTransactionSubmittedEventCount
func vfStubCount(q *database.Queries, ctx context.Context, eon int64) (int64, error) {
	vfTableKey(eon)
	return vfQ.count, nil
}

func vfIdentityOf(ev database.TransactionSubmittedEvent, sender common.Address) []byte {
	out := append([]byte{}, ev.IdentityPrefix...)
	return append(out, sender[:]...)
}

func H_C19_identities() {
	k := vfLen("queue.rows", vfParam("rows", 3))
	limit := vfU64("cfg.gaslimit")
	minGas := vfU64("cfg.mingas")
	vfAssume(minGas >= 1 && limit < 1<<60) // configuration values; documented: min gas per tx is positive
	slot := vfU64("slot")
	var senders []common.Address
	vfQ.rows = nil
	for i := 0; i < k; i++ {
		s := vfAny[common.Address]("row.sender")
		senders = append(senders, s)
		g := vfI64("row.gas")
		vfAssume(g >= 0 && g < 1<<60) // stated: cumulative gas does not wrap
		vfQ.rows = append(vfQ.rows, database.TransactionSubmittedEvent{Index: vfI64("row.index"), Eon: vfI64("row.eon"),
			IdentityPrefix: vfBytesN("row.prefix", 32), Sender: shdb.EncodeAddress(s), GasLimit: g})
	}
	kpr := &Keyper{config: &Config{Gnosis: &GnosisConfig{EncryptedGasLimit: limit, MinGasPerTransaction: minGas}}}
	ptr := vfI64("txpointer")
	got, err := kpr.getDecryptionIdentityPreimages(context.Background(), slot, vfI64("eon"), ptr)
	if err != nil {
		vfReach("error")
		vfAssert(limit/minGas+1 > 1<<31-1, "error-only-for-oversized-gas-limit")
		return
	}
	vfAssert(vfQ.indexSeen == ptr, "queue-read-from-the-transaction-pointer")
	vfAssert(uint64(vfQ.limitSeen) == limit/minGas+1, "query-limit-covers-the-gas-limit")
	// reference selection: first always, then while the cumulative gas stays within the limit
	var want [][]byte
	slotID := make([]byte, 52)
	for i := 0; i < 8; i++ {
		slotID[51-i] = byte(slot >> (8 * i))
	}
	want = append(want, slotID)
	gas := uint64(0)
	for i := 0; i < k; i++ {
		gas += uint64(vfQ.rows[i].GasLimit)
		if gas > limit && i > 0 {
			break
		}
		want = append(want, vfIdentityOf(vfQ.rows[i], senders[i]))
	}
	vfAssert(len(got) == len(want), "slot-identity-plus-gas-bounded-prefix-of-the-queue")
	if len(got) != len(want) {
		return
	}
	if len(got) > 1 {
		vfReach("some-transactions")
	}
	if len(got) == k+1 && k > 0 {
		vfReach("whole-queue")
	}
	for i := range got {
		if i > 0 {
			vfAssert(bytes.Compare(got[i-1], got[i]) <= 0, "identities-sorted")
		}
		found := false
		for _, w := range want {
			if bytes.Equal(got[i], w) {
				found = true
			}
		}
		vfAssert(found, "every-requested-identity-is-expected")
	}
	for _, w := range want {
		found := false
		for i := range got {
			if bytes.Equal(got[i], w) {
				found = true
			}
		}
		vfAssert(found, "every-expected-identity-is-requested")
	}
	// slot identity first, provided no transaction identity is below it (sender addresses are not ~0)
	small := false
	for i := 1; i < len(want); i++ {
		if bytes.Compare(want[i], slotID) < 0 {
			small = true
		}
	}
	if !small {
		vfAssert(bytes.Equal(got[0], slotID), "slot-identity-first")
	}
	_ = identitypreimage.IdentityPreimage(nil)
}

func H_C19_txpointer() {
	vfQ.ptrRow, vfQ.ptrErr = vfBool("ptr.row"), vfBool("ptr.err")
	vfQ.ptr = database.TxPointer{Eon: vfI64("ptr.eon"), Value: vfI64("ptr.value"), Age: sql.NullInt64{Int64: vfI64("ptr.age"), Valid: vfBool("ptr.age-known")}}
	vfQ.count = vfI64("queue.count")
	vfQ.setCalls = 0
	maxAge := vfI64("cfg.maxage")
	got, err := getTxPointer(context.Background(), nil, vfI64("eon"), maxAge)
	if vfQ.ptrErr {
		vfAssert(err != nil, "db-error-propagates")
		return
	}
	vfAssert(err == nil, "no-error")
	switch {
	case !vfQ.ptrRow:
		vfAssert(got == 0 && vfQ.setCalls == 1 && vfQ.setValue == 0 && vfQ.setAge.Valid && vfQ.setAge.Int64 == 0, "absent-pointer-initialised-to-zero")
		vfReach("initialised")
	case vfQ.ptr.Age.Valid && vfQ.ptr.Age.Int64 <= maxAge:
		vfAssert(got == vfQ.ptr.Value && vfQ.setCalls == 0, "fresh-pointer-used-as-stored")
		vfReach("stored")
	default:
		vfAssert(got == vfQ.count && vfQ.setCalls == 0, "outdated-or-unknown-pointer-falls-back-to-queue-length")
		vfReach("fallback")
	}
}

// pointer after a self-produced keys message releasing k identities at pointer p is p+k-1, age zero
func H_C19_middleware_pointer() {
	k := vfLen("nkeys", vfParam("keys", 3))
	m := vfKeysMsg(k)
	vfQ.setCalls = 0
	err := (&MessagingMiddleware{}).advanceTxPointer(context.Background(), m)
	vfAssert(err == nil, "no-error")
	ex := vfGnosisExtra(m)
	vfAssert(vfQ.setCalls == 1 && vfQ.setValue == int64(ex.TxPointer)+int64(k)-1 && vfQ.setAge.Valid && vfQ.setAge.Int64 == 0, "tx-pointer-advanced-to-p-plus-k-minus-1-age-zero")
	vfReach("advanced")
}

func vfKeysMsg(k int) *p2pmsg.DecryptionKeys {
	m := &p2pmsg.DecryptionKeys{InstanceId: vfU64("instance"), Eon: vfU64("eon"),
		Extra: &p2pmsg.DecryptionKeys_Gnosis{Gnosis: &p2pmsg.GnosisDecryptionKeysExtra{Slot: vfU64("slot"), TxPointer: vfU64("msg.txpointer")}}}
	for i := 0; i < k; i++ {
		m.Keys = append(m.Keys, &p2pmsg.Key{IdentityPreimage: vfBytes("identity", 2), Key: vfBytes("key", 2)})
	}
	return m
}

func vfGnosisExtra(m *p2pmsg.DecryptionKeys) *p2pmsg.GnosisDecryptionKeysExtra {
	return m.Extra.(*p2pmsg.DecryptionKeys_Gnosis).Gnosis
}

// ---- the trigger for a slot is assembled from exactly these two pieces ----

var vfTrig struct {
	eonRow  corekeyperdatabase.Eon
	set     *database.SetCurrentDecryptionTriggerParams
	setCnt  int
}

//verif:stub (*github.com/shutter-network/rolling-shutter/rolling-shutter/keyper/database.Queries).GetEonForBlockNumber sql=getEonForBlockNumber
func vfStubEonForBlock(q *corekeyperdatabase.Queries, ctx context.Context, block int64) (corekeyperdatabase.Eon, error) {
	if vfBool("db.no-eon") {
		return corekeyperdatabase.Eon{}, vfErr("no eon")
	}
	vfAssert(block == vfTrigBlock, "eon-looked-up-for-the-next-block")
	return vfTrig.eonRow, nil
}

var vfTrigBlock int64

//verif:stub (*github.com/shutter-network/rolling-shutter/rolling-shutter/keyperimpl/gnosis/database.Queries).SetCurrentDecryptionTrigger sql=setCurrentDecryptionTrigger
func vfStubSetTrigger(q *database.Queries, ctx context.Context, arg database.SetCurrentDecryptionTriggerParams) error {
	a := arg
	vfTrig.set = &a
	vfTrig.setCnt++
	return nil
}

//verif:stub github.com/ethereum/go-ethereum/crypto.Keccak256
func vfStubKeccak19(data ...[]byte) []byte {
	acc := uint64(0)
	for _, d := range data {
		acc = vfUFU64("keccak-absorb", acc, d)
	}
	return vfUFBytesN("keccak-out", 32, acc)
}

func H_C19_trigger_decryption() {
	k := vfLen("queue.rows", vfParam("rows", 2))
	limit, minGas := vfU64("cfg.gaslimit"), vfU64("cfg.mingas")
	vfAssume(minGas >= 1 && limit < 1<<60 && limit/minGas+1 <= 1<<31-1)
	slot := vfU64("slot")
	vfAssume(slot < 1<<62)
	vfQ.rows = nil
	for i := 0; i < k; i++ {
		g := vfI64("row.gas")
		vfAssume(g >= 0 && g < 1<<60)
		vfQ.rows = append(vfQ.rows, database.TransactionSubmittedEvent{Index: vfI64("row.index"), Eon: vfI64("row.eon"),
			IdentityPrefix: vfBytesN("row.prefix", 32), Sender: shdb.EncodeAddress(vfAny[common.Address]("row.sender")), GasLimit: g})
	}
	vfQ.ptrRow, vfQ.ptrErr = vfBool("ptr.row"), false
	vfQ.ptr = database.TxPointer{Eon: vfI64("ptr.eon"), Value: vfI64("ptr.value"), Age: sql.NullInt64{Int64: vfI64("ptr.age"), Valid: vfBool("ptr.age-known")}}
	vfQ.count = vfI64("queue.count")
	maxAge := vfU64("cfg.maxage")
	vfAssume(maxAge < 1<<62)
	cfgIndex := vfI64("keyper-config-index")
	vfTrig.eonRow = corekeyperdatabase.Eon{Eon: vfI64("eon"), KeyperConfigIndex: cfgIndex}
	vfTrig.set, vfTrig.setCnt = nil, 0
	vfTrigBlock = vfI64("next-block")
	vfAssume(vfTrigBlock >= 0)
	ch := make(chan *broker.Event[*epochkghandler.DecryptionTrigger], 1)
	kpr := &Keyper{config: &Config{Gnosis: &GnosisConfig{EncryptedGasLimit: limit, MinGasPerTransaction: minGas, MaxTxPointerAge: maxAge}}, decryptionTriggerChannel: ch}
	set := &obskeyper.KeyperSet{KeyperConfigIndex: cfgIndex} // the keyper set active at the next block is the eon's
	vfQ.keyed, vfQ.key = true, cfgIndex
	err := kpr.triggerDecryption(context.Background(), slot, vfTrigBlock, set)
	vfQ.keyed = false
	if err != nil {
		vfAssert(vfChanLen(ch) == 0, "no-trigger-on-error")
		vfReach("error")
		return
	}
	readFrom := vfQ.indexSeen // where triggerDecryption read the queue from
	// reference: the two verified pieces, evaluated on the same tables
	wantPtr, perr := getTxPointer(context.Background(), nil, cfgIndex, int64(maxAge))
	wantIDs, ierr := kpr.getDecryptionIdentityPreimages(context.Background(), slot, cfgIndex, wantPtr)
	vfAssert(perr == nil && ierr == nil, "pieces-succeed-when-the-whole-does")
	vfAssert(readFrom == wantPtr, "queue-read-from-the-pointer-getTxPointer-yields")
	vfAssert(vfTrig.setCnt == 1 && vfTrig.set.Eon == cfgIndex && vfTrig.set.Slot == int64(slot) && vfTrig.set.TxPointer == wantPtr, "current-trigger-row-records-config-index-slot-and-pointer")
	vfAssert(bytes.Equal(vfTrig.set.IdentitiesHash, computeIdentitiesHash(wantIDs)), "current-trigger-row-records-the-hash-of-the-requested-identities")
	vfAssert(vfChanLen(ch) == 1, "exactly-one-trigger-event")
	ev := <-ch
	vfAssert(ev.Value.BlockNumber == uint64(vfTrigBlock), "trigger-is-for-the-next-block")
	vfAssert(vfDeepEq(ev.Value.IdentityPreimages, wantIDs), "trigger-requests-the-slot-identity-and-the-selected-queue-prefix")
	vfReach("triggered")
}

package shdb

import (
	"bytes"
	"encoding/gob"
	"io"
	"math/big"

	"github.com/shutter-network/shutter/shlib/puredkg"
	"github.com/shutter-network/shutter/shlib/shcrypto"
)

// C08 (snapshot of the DKG object): the keyper's puredkg row is the only copy of its key
// generation state that survives a crash. Whatever EncodePureDKG writes, DecodePureDKG must give
// back an object that treats every later input exactly like the one that was in memory: in
// particular it must still know WHICH dealers' commitments and evaluations have arrived (the DKG
// library rejects a second one from the same dealer as a duplicate).
//
// encoding/gob is not executed. Its model is deliberately weak - only what the package
// documentation promises: scalar fields, lengths, bools, integers, maps and non-nil elements come
// back as written; whether a NIL element of a slice of pointers to types with their own GobEncode
// (shcrypto.Gammas, big.Int) comes back nil or as an empty non-nil value is NOT promised and is
// left to the solver. The stubs are models for the symbolic run only (replay=real): a
// counterexample is replayed with the real encoding/gob and the real puredkg package.

var vfGobQueue []interface{} // values written to the stream, in order
var vfGobRead int

//verif:stub encoding/gob.NewEncoder replay=real
func vfStubNewEncoder(w io.Writer) *gob.Encoder { return &gob.Encoder{} }

//verif:stub encoding/gob.NewDecoder replay=real
func vfStubNewDecoder(r io.Reader) *gob.Decoder { return &gob.Decoder{} }

//verif:stub (*encoding/gob.Encoder).Encode replay=real
func vfStubEncode(e *gob.Encoder, v interface{}) error {
	if p, ok := v.(*puredkg.PureDKG); ok {
		c := *p // the stream holds the value as it was when it was written
		c.Commitments = append([]*shcrypto.Gammas(nil), p.Commitments...)
		c.Evals = append([]*big.Int(nil), p.Evals...)
		vfGobQueue = append(vfGobQueue, &c)
		return nil
	}
	if b, ok := v.([][]bool); ok {
		var c [][]bool
		for _, row := range b {
			c = append(c, append([]bool(nil), row...))
		}
		vfGobQueue = append(vfGobQueue, c)
		return nil
	}
	vfAssert(false, "gob-model-knows-the-encoded-type")
	return vfErr("gob-model")
}

//verif:stub (*encoding/gob.Decoder).Decode replay=real
func vfStubDecode(d *gob.Decoder, v interface{}) error {
	if vfGobRead >= len(vfGobQueue) {
		return io.EOF
	}
	src := vfGobQueue[vfGobRead]
	vfGobRead++
	if t, ok := v.(*puredkg.PureDKG); ok {
		p, ok := src.(*puredkg.PureDKG)
		if !ok {
			return vfErr("gob-type-mismatch")
		}
		*t = *p
		t.Commitments = make([]*shcrypto.Gammas, len(p.Commitments))
		for i, g := range p.Commitments {
			if g != nil || !vfBool("gob.nil-commitment-slot-comes-back-nil") {
				t.Commitments[i] = g
				if g == nil {
					t.Commitments[i] = &shcrypto.Gammas{}
				}
			}
		}
		t.Evals = make([]*big.Int, len(p.Evals))
		for i, x := range p.Evals {
			if x != nil || !vfBool("gob.nil-evaluation-slot-comes-back-nil") {
				t.Evals[i] = x
				if x == nil {
					t.Evals[i] = new(big.Int)
				}
			}
		}
		return nil
	}
	if t, ok := v.(*[][]bool); ok {
		b, ok := src.([][]bool)
		if !ok {
			return vfErr("gob-type-mismatch")
		}
		*t = b
		return nil
	}
	vfAssert(false, "gob-model-knows-the-decoded-type")
	return vfErr("gob-model")
}

// the reader's content is irrelevant to the gob model above (the stream is the ghost queue)
//
//verif:stub bytes.NewBuffer replay=real
func vfStubNewBuffer(buf []byte) *bytes.Buffer { return &bytes.Buffer{} }

//verif:stub github.com/shutter-network/shutter/shlib/shcrypto.ZeroGammas replay=real
func vfStubZeroGammas(degree uint64) *shcrypto.Gammas {
	g := make(shcrypto.Gammas, degree+1)
	return &g
}

//verif:stub (*github.com/shutter-network/shutter/shlib/shcrypto.Gammas).Degree replay=real
func vfStubDegree(g *shcrypto.Gammas) uint64 { return uint64(len(*g)) - 1 }

//verif:stub github.com/shutter-network/shutter/shlib/shcrypto.DegreeFromThreshold replay=real
func vfStubDegreeFromThreshold(t uint64) uint64 { return t - 1 }

//verif:stub github.com/shutter-network/shutter/shlib/shcrypto.ValidEval replay=real
func vfStubValidEval(v *big.Int) bool { return v.Sign() >= 0 && v.IsUint64() }

func H_C08_snapshot_keeps_received_inputs() {
	n := uint64(vfParam("keypers", 3))
	t := uint64(vfLen("threshold-minus-1", int(n)-1) + 1)
	own := vfU64("own-index")
	vfAssume(own < n)
	p := puredkg.NewPureDKG(vfU64("eon"), n, t, own)
	p.Phase = puredkg.Phase(vfLen("phase", 4))
	for i := uint64(0); i < n; i++ {
		if vfBool("commitment-arrived") {
			p.Commitments[i] = shcrypto.ZeroGammas(t - 1)
		}
		if vfBool("evaluation-arrived") {
			p.Evals[i] = new(big.Int).SetUint64(vfU64("evaluation"))
		}
	}
	vfGobQueue, vfGobRead = nil, 0

	b, err := EncodePureDKG(&p)
	vfAssert(err == nil, "snapshot-is-written")
	q, err := DecodePureDKG(b)
	vfAssert(err == nil && q != nil, "snapshot-is-read-back")
	if err != nil || q == nil {
		return
	}
	vfAssert(q.Phase == p.Phase && q.Eon == p.Eon && q.NumKeypers == p.NumKeypers && q.Threshold == p.Threshold && q.Keyper == p.Keyper, "restored-object-has-the-same-parameters-and-phase")
	vfAssert(uint64(len(q.Commitments)) == n && uint64(len(q.Evals)) == n, "restored-object-has-one-slot-per-keyper")
	if uint64(len(q.Commitments)) != n || uint64(len(q.Evals)) != n {
		return
	}
	for i := uint64(0); i < n; i++ {
		vfAssert((q.Commitments[i] == nil) == (p.Commitments[i] == nil), "restored-object-knows-which-commitments-have-arrived")
		vfAssert((q.Evals[i] == nil) == (p.Evals[i] == nil), "restored-object-knows-which-evaluations-have-arrived")
		if p.Evals[i] != nil && q.Evals[i] != nil {
			vfAssert(q.Evals[i].Cmp(p.Evals[i]) == 0, "restored-evaluation-equals-the-received-one")
		}
		if p.Commitments[i] != nil && q.Commitments[i] != nil {
			vfAssert(len(*q.Commitments[i]) == len(*p.Commitments[i]), "restored-commitment-equals-the-received-one")
		}
	}
	// the consequence a crash would have: the next commitment / evaluation from some dealer is
	// treated by the restarted keyper exactly as by one that never stopped
	sender := vfU64("next-sender")
	vfAssume(sender < n)
	cm := puredkg.PolyCommitmentMsg{Eon: p.Eon, Sender: sender, Gammas: shcrypto.ZeroGammas(t - 1)}
	e1 := p.HandlePolyCommitmentMsg(cm)
	e2 := q.HandlePolyCommitmentMsg(cm)
	vfAssert((e1 == nil) == (e2 == nil), "restarted-keyper-accepts-the-same-commitments")
	em := puredkg.PolyEvalMsg{Eon: p.Eon, Sender: sender, Receiver: own, Eval: new(big.Int).SetUint64(vfU64("next-evaluation"))}
	e3 := p.HandlePolyEvalMsg(em)
	e4 := q.HandlePolyEvalMsg(em)
	vfAssert((e3 == nil) == (e4 == nil), "restarted-keyper-accepts-the-same-evaluations")
	if e1 == nil {
		vfReach("commitment-accepted")
	} else {
		vfReach("commitment-refused")
	}
	if e3 == nil {
		vfReach("evaluation-accepted")
	}
}

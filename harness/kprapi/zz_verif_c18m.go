package kprapi

import (
	"context"
	"net/http"
	"net/url"
	"strings"

	"github.com/ethereum/go-ethereum/common"
	"github.com/getkin/kin-openapi/openapi3"
	"github.com/go-chi/chi/v5"

	"github.com/shutter-network/rolling-shutter/rolling-shutter/keyper/kproapi"
)

// C18 (mounting): the decision kernel (kproapi.ConfigMiddleware, checked by H_C18_decision_kernel)
// protects an operation only if it sits in front of it. The real setupAPIRouter and the real
// generated kproapi.HandlerWithOptions / ServerInterfaceWrapper run against a recording model of
// chi's Mux with chi's documented contract: middlewares registered by Use wrap every route that
// is registered afterwards on the mux or a Group of it, in registration order, and Use after a
// route has been registered panics. The guard itself is a marker that records with which flag it
// was built and whether a request went through it; the server's operations are recorders.
// Asserted per registered route, on a symbolic request: an operation of the server is reached only
// through the guard, the guard was built from the configured flag, and a request the guard blocks
// reaches nothing.

type vfRoute struct {
	method  string
	pattern string
	handler http.HandlerFunc
	mws     []func(http.Handler) http.Handler
}

var vfMux struct {
	mws          []func(http.Handler) http.Handler
	routes       []vfRoute
	guardBuilt   int
	guardFlag    bool
	guardSeen    bool // the current request went through the guard
	guardBlocks  bool // ... and the guard refuses it
	validatorOK  bool
	reached      string // operation of the server the current request reached
	useAfterRoute bool
}

//verif:stub github.com/go-chi/chi/v5.NewRouter
func vfStubNewRouter() *chi.Mux { return &chi.Mux{} }

//verif:stub (*github.com/go-chi/chi/v5.Mux).Use
func vfStubUse(mx *chi.Mux, middlewares ...func(http.Handler) http.Handler) {
	if len(vfMux.routes) > 0 {
		vfMux.useAfterRoute = true // chi panics: all middlewares must be defined before routes
	}
	vfMux.mws = append(vfMux.mws, middlewares...)
}

//verif:stub (*github.com/go-chi/chi/v5.Mux).Group
func vfStubGroup(mx *chi.Mux, fn func(r chi.Router)) chi.Router {
	fn(mx) // the inline group inherits the middleware stack registered so far
	return mx
}

func vfAddRoute(method, pattern string, h http.HandlerFunc) {
	vfMux.routes = append(vfMux.routes, vfRoute{method: method, pattern: pattern, handler: h, mws: append([]func(http.Handler) http.Handler(nil), vfMux.mws...)})
}

//verif:stub (*github.com/go-chi/chi/v5.Mux).Get
func vfStubGet(mx *chi.Mux, pattern string, h http.HandlerFunc) { vfAddRoute("GET", pattern, h) }

//verif:stub (*github.com/go-chi/chi/v5.Mux).Post
func vfStubPost(mx *chi.Mux, pattern string, h http.HandlerFunc) { vfAddRoute("POST", pattern, h) }

// request validation against the spec: passes or rejects, arbitrary
//
//verif:stub github.com/deepmap/oapi-codegen/pkg/chi-middleware.OapiRequestValidator
func vfStubValidator(swagger *openapi3.T) func(next http.Handler) http.Handler {
	return func(next http.Handler) http.Handler {
		return http.HandlerFunc(func(w http.ResponseWriter, r *http.Request) {
			if vfMux.validatorOK {
				next.ServeHTTP(w, r)
			}
		})
	}
}

// the guard: a marker with the decision left open
//
//verif:stub github.com/shutter-network/rolling-shutter/rolling-shutter/keyper/kproapi.ConfigMiddleware
func vfStubConfigMiddleware(enable bool) kproapi.MiddlewareFunc {
	vfMux.guardBuilt++
	vfMux.guardFlag = enable
	return func(next http.Handler) http.Handler {
		return http.HandlerFunc(func(w http.ResponseWriter, r *http.Request) {
			vfMux.guardSeen = true
			if !vfMux.guardBlocks {
				next.ServeHTTP(w, r)
			}
		})
	}
}

//verif:stub (*net/http.Request).Context
func vfStubReqContext(r *http.Request) context.Context { return context.Background() }

//verif:stub (*net/http.Request).WithContext
func vfStubWithContext(r *http.Request, ctx context.Context) *http.Request { return r }

//verif:stub (*github.com/shutter-network/rolling-shutter/rolling-shutter/keyper/kprapi.Server).Shutdown
func vfStubShutdown(srv *Server, w http.ResponseWriter, r *http.Request) { vfMux.reached = "Shutdown" }

//verif:stub (*github.com/shutter-network/rolling-shutter/rolling-shutter/keyper/kprapi.Server).SubmitDecryptionTrigger
func vfStubSubmit(srv *Server, w http.ResponseWriter, r *http.Request) {
	vfMux.reached = "SubmitDecryptionTrigger"
}

//verif:stub (*github.com/shutter-network/rolling-shutter/rolling-shutter/keyper/kprapi.Server).Ping
func vfStubPing(srv *Server, w http.ResponseWriter, r *http.Request) { vfMux.reached = "Ping" }

//verif:stub (*github.com/shutter-network/rolling-shutter/rolling-shutter/keyper/kprapi.Server).GetEons
func vfStubGetEons(srv *Server, w http.ResponseWriter, r *http.Request) { vfMux.reached = "GetEons" }

type vfCfg struct{ enable bool }

func (c vfCfg) GetHTTPListenAddress() string    { return "" }
func (c vfCfg) GetAddress() common.Address      { return common.Address{} }
func (c vfCfg) GetInstanceID() uint64           { return 0 }
func (c vfCfg) GetEnableWriteOperations() bool  { return c.enable }

type vfWriter struct{}

func (vfWriter) Header() http.Header         { return nil }
func (vfWriter) Write(b []byte) (int, error) { return len(b), nil }
func (vfWriter) WriteHeader(code int)        {}

func H_C18_guard_is_mounted_before_every_operation() {
	enable := vfBool("enable-write-operations")
	srv := &Server{config: vfCfg{enable: enable}}
	vfMux.mws, vfMux.routes, vfMux.guardBuilt, vfMux.useAfterRoute = nil, nil, 0, false
	h := srv.setupAPIRouter(&openapi3.T{})
	vfAssert(h != nil, "router-returned")
	vfAssert(!vfMux.useAfterRoute, "middlewares-are-registered-before-the-routes")
	vfAssert(vfMux.guardBuilt >= 1 && vfMux.guardFlag == enable, "guard-is-built-from-the-configured-flag")
	ops := map[string]bool{}
	for _, rt := range vfMux.routes {
		if strings.Contains(rt.pattern, "{") {
			// the parameter binding of the generated wrapper (oapi-codegen runtime) is not executed;
			// the read-only GetDecryptionKey route is still required to be registered under the guard
			vfAssert(len(rt.mws) >= 1, "parameterised-route-is-registered-under-the-middleware-stack")
			continue
		}
		// the chain chi builds for this route: first registered middleware outermost
		var chain http.Handler = rt.handler
		for i := len(rt.mws) - 1; i >= 0; i-- {
			chain = rt.mws[i](chain)
		}
		vfMux.guardSeen, vfMux.reached = false, ""
		vfMux.guardBlocks, vfMux.validatorOK = vfBool("guard-blocks"), vfBool("request-valid")
		chain.ServeHTTP(vfWriter{}, &http.Request{Method: rt.method, URL: &url.URL{Path: rt.pattern}})
		if vfMux.reached != "" {
			ops[vfMux.reached] = true
			vfAssert(vfMux.guardSeen, "operation-reached-only-through-the-guard")
			vfAssert(!vfMux.guardBlocks, "a-request-the-guard-blocks-reaches-no-operation")
		}
		if vfMux.validatorOK && !vfMux.guardBlocks {
			vfAssert(vfMux.reached != "", "an-admitted-request-reaches-its-operation")
		}
	}
	vfAssert(len(vfMux.routes) == 5, "all-five-operations-are-routed")
	if ops["Shutdown"] && ops["SubmitDecryptionTrigger"] && ops["Ping"] && ops["GetEons"] {
		vfReach("every-operation-reachable-when-admitted")
	}
}

package main

// Solver portfolio: long-lived z3 (reset per query) and cvc5 (bv-as-int, push/pop) processes.

import (
	"bufio"
	"fmt"
	"io"
	"math/big"
	"os"
	"os/exec"
	"sort"
	"strings"
	"sync"
	"sync/atomic"
	"time"
)

type proc struct {
	name              string
	bin               string
	args              []string
	init              string
	prelude, postlude string
	cmd               *exec.Cmd
	in                io.WriteCloser
	out               *bufio.Reader
	mu                sync.Mutex // held while a query is running on this process
	queries           int
	time              time.Duration
	dead              bool
	seq               int
	curQ              int64
	qmu               sync.Mutex
	wins              int
}

func (p *proc) start() error {
	c := exec.Command(p.bin, p.args...)
	in, _ := c.StdinPipe()
	o, _ := c.StdoutPipe()
	c.Stderr = c.Stdout
	if err := c.Start(); err != nil {
		return err
	}
	p.cmd, p.in, p.out = c, in, bufio.NewReaderSize(o, 1<<16)
	io.WriteString(p.in, p.init)
	p.dead = false
	return nil
}

// readUntil reads output lines until the echo marker appears; returns the lines before it.
func (p *proc) readUntil(marker string) ([]string, error) {
	var lines []string
	for {
		line, err := p.out.ReadString('\n')
		if err != nil {
			return lines, err
		}
		t := strings.TrimSpace(line)
		if t == marker || t == "\""+marker+"\"" {
			return lines, nil
		}
		if t != "" {
			lines = append(lines, t)
		}
	}
}

type answer struct {
	idx    int
	res    string
	values []*big.Int
	from   string
}

// run one query synchronously on this process.
// killIfRunning kills the solver process if it is still working on query q.
func (p *proc) killIfRunning(q int64) {
	p.qmu.Lock()
	defer p.qmu.Unlock()
	if p.curQ == q && p.cmd != nil && p.cmd.Process != nil {
		p.cmd.Process.Kill()
	}
}

func (p *proc) runQ(q int64, script string, refs []string, wantModel bool) answer {
	p.qmu.Lock()
	p.curQ = q
	p.qmu.Unlock()
	a := p.run(script, refs, wantModel)
	p.qmu.Lock()
	p.curQ = 0
	p.qmu.Unlock()
	return a
}

func (p *proc) run(script string, refs []string, wantModel bool) answer {
	t0 := time.Now()
	defer func() { p.time += time.Since(t0); p.queries++ }()
	if p.dead {
		if err := p.start(); err != nil {
			return answer{res: "error: cannot start " + p.name, from: p.name}
		}
	}
	p.seq++
	marker := fmt.Sprintf("@@done%d", p.seq)
	q := p.prelude + script + "(check-sat)\n(echo \"" + marker + "\")\n"
	if _, err := io.WriteString(p.in, q); err != nil {
		p.dead = true
		return answer{res: "error: " + err.Error(), from: p.name}
	}
	lines, err := p.readUntil(marker)
	if err != nil {
		p.dead = true
		p.cmd.Process.Kill()
		p.cmd.Wait()
		return answer{res: "error: " + err.Error() + " " + strings.Join(lines, " "), from: p.name}
	}
	a := answer{res: "unknown", from: p.name}
	for _, l := range lines {
		switch l {
		case "sat", "unsat", "unknown":
			a.res = l
		}
	}
	for _, l := range lines {
		if strings.Contains(l, "(error") {
			a.res = "error: " + l
		}
	}
	if a.res == "sat" && wantModel && len(refs) > 0 {
		p.seq++
		marker = fmt.Sprintf("@@done%d", p.seq)
		io.WriteString(p.in, "(get-value ("+strings.Join(refs, " ")+"))\n(echo \""+marker+"\")\n")
		ml, err := p.readUntil(marker)
		if err != nil {
			p.dead = true
			return answer{res: "error: " + err.Error(), from: p.name}
		}
		vals, perr := parseValues(strings.Join(ml, "\n"), len(refs))
		if perr != nil {
			a.res = "error: model parse: " + perr.Error()
		}
		a.values = vals
	}
	io.WriteString(p.in, p.postlude)
	return a
}

func (p *proc) close() {
	if p.cmd != nil && !p.dead {
		p.in.Close()
		done := make(chan struct{})
		go func() { p.cmd.Wait(); close(done) }()
		select {
		case <-done:
		case <-time.After(500 * time.Millisecond):
			p.cmd.Process.Kill()
		}
	}
}

// ---- s-expression value parsing ----

type sx struct {
	atom string
	list []*sx
}

func parseSx(s string) (*sx, error) {
	pos := 0
	var parse func() (*sx, error)
	skip := func() {
		for pos < len(s) && (s[pos] == ' ' || s[pos] == '\n' || s[pos] == '\t' || s[pos] == '\r') {
			pos++
		}
	}
	parse = func() (*sx, error) {
		skip()
		if pos >= len(s) {
			return nil, fmt.Errorf("eof")
		}
		if s[pos] == '(' {
			pos++
			n := &sx{list: []*sx{}}
			for {
				skip()
				if pos >= len(s) {
					return nil, fmt.Errorf("eof in list")
				}
				if s[pos] == ')' {
					pos++
					return n, nil
				}
				c, err := parse()
				if err != nil {
					return nil, err
				}
				n.list = append(n.list, c)
			}
		}
		st := pos
		if s[pos] == '|' {
			pos++
			for pos < len(s) && s[pos] != '|' {
				pos++
			}
			pos++
			return &sx{atom: s[st:pos]}, nil
		}
		for pos < len(s) && !strings.ContainsRune(" \n\t\r()", rune(s[pos])) {
			pos++
		}
		return &sx{atom: s[st:pos]}, nil
	}
	return parse()
}

func sxValue(v *sx) (*big.Int, bool) {
	r := new(big.Int)
	if v.list == nil {
		a := v.atom
		switch {
		case strings.HasPrefix(a, "#x"):
			r.SetString(a[2:], 16)
		case strings.HasPrefix(a, "#b"):
			r.SetString(a[2:], 2)
		case a == "true":
			r.SetInt64(1)
		case a == "false":
			r.SetInt64(0)
		default:
			return nil, false
		}
		return r, true
	}
	// (_ bv123 64)
	if len(v.list) == 3 && v.list[0].atom == "_" && strings.HasPrefix(v.list[1].atom, "bv") {
		r.SetString(v.list[1].atom[2:], 10)
		return r, true
	}
	return nil, false
}

func parseValues(s string, n int) ([]*big.Int, error) {
	t, err := parseSx(s)
	if err != nil {
		return nil, err
	}
	if len(t.list) != n {
		return nil, fmt.Errorf("expected %d values, got %d: %.200s", n, len(t.list), s)
	}
	out := make([]*big.Int, n)
	for i, pr := range t.list {
		if len(pr.list) != 2 {
			return nil, fmt.Errorf("bad pair")
		}
		v, ok := sxValue(pr.list[1])
		if !ok {
			return nil, fmt.Errorf("bad value %v", pr.list[1])
		}
		out[i] = v
	}
	return out, nil
}

// ---- portfolio ----

type Portfolio struct {
	procs    []*proc
	mu       sync.Mutex
	Queries  int
	Time     time.Duration
	ByWinner map[string]int
	Disagree []string
	Log      io.Writer
	Errors   []string
	avg      time.Duration
	qid      int64
}

func (pf *Portfolio) delay() time.Duration {
	d := 3 * pf.avg
	if d < 150*time.Millisecond {
		d = 150 * time.Millisecond
	}
	if d > 3*time.Second {
		d = 3 * time.Second
	}
	return d
}

func NewPortfolio(timeoutMs int, which string) (*Portfolio, error) {
	pf := &Portfolio{ByWinner: map[string]int{}}
	if which == "" {
		which = "cvc5bv,z3,cvc5"
	}
	for _, w := range strings.Split(which, ",") {
		var p *proc
		switch w {
		case "z3":
			p = &proc{name: "z3-4.8.12(reset)", bin: "z3", args: []string{"-in", fmt.Sprintf("-t:%d", timeoutMs)}, prelude: "(reset)\n"}
		case "z3new":
			p = &proc{name: "z3-5.1.0(reset)", bin: "z3-new", args: []string{"-in", fmt.Sprintf("-t:%d", timeoutMs)}, prelude: "(reset)\n"}
		case "cvc5":
			p = &proc{name: "cvc5-1.0(bv-as-int)", bin: "cvc5", args: []string{"--incremental", "--solve-bv-as-int=sum", "--produce-models", fmt.Sprintf("--tlimit-per=%d", timeoutMs)},
				init: "(set-logic ALL)\n", prelude: "(push)\n", postlude: "(pop)\n"}
		case "cvc5bv":
			p = &proc{name: "cvc5-1.0(bv)", bin: "cvc5", args: []string{"--incremental", "--produce-models", fmt.Sprintf("--tlimit-per=%d", timeoutMs)},
				init: "(set-logic ALL)\n", prelude: "(push)\n", postlude: "(pop)\n"}
		default:
			return nil, fmt.Errorf("unknown solver %s", w)
		}
		if err := p.start(); err != nil {
			return nil, err
		}
		pf.procs = append(pf.procs, p)
	}
	return pf, nil
}

func definite(r string) bool { return r == "sat" || r == "unsat" }

// Check asks whether the conjunction of as is satisfiable. extra terms are evaluated in the
// model (if sat and wantModel). Returns result, values of extra (same order), and winner.
func (pf *Portfolio) Check(as []*Term, extra []*Term, wantModel bool) (string, []*big.Int) {
	t0 := time.Now()
	script, refs := Script(as, extra)
	if pf.Log != nil {
		fmt.Fprintf(pf.Log, "; ---- query\n%s(check-sat)\n", script)
	}
	ch := make(chan answer, len(pf.procs))
	var answered int32
	done := make(chan struct{})
	started := len(pf.procs)
	pf.mu.Lock()
	pf.qid++
	qid := pf.qid
	// rank solvers by wins so far (stable)
	order := make([]int, len(pf.procs))
	for i := range order {
		order[i] = i
	}
	sort.SliceStable(order, func(x, y int) bool { return pf.procs[order[x]].wins > pf.procs[order[y]].wins })
	delay := pf.delay()
	pf.mu.Unlock()
	for rank, i := range order {
		go func(rank, i int, p *proc) {
			if rank > 0 {
				// staggered start: give the preferred solver(s) a head start
				select {
				case <-done:
				case <-time.After(time.Duration(rank) * delay):
				}
			}
			p.mu.Lock() // waits until the process is free (a killed straggler restarts lazily)
			if atomic.LoadInt32(&answered) != 0 {
				p.mu.Unlock()
				ch <- answer{res: "skipped", from: p.name}
				return
			}
			a := p.runQ(qid, script, refs, wantModel)
			p.mu.Unlock()
			a.idx = i
			ch <- a
		}(rank, i, pf.procs[i])
	}
	var first answer
	got := 0
	var notes []string
	if os.Getenv("VERIF_CROSSCHECK") != "" {
		// diagnostic mode: let every solver finish and compare the definite answers
		close(done)
		var all []answer
		for got < started {
			a := <-ch
			got++
			all = append(all, a)
			if definite(a.res) && !definite(first.res) {
				first = a
			}
		}
		for _, a := range all {
			if definite(a.res) && a.res != first.res {
				pf.mu.Lock()
				pf.Disagree = append(pf.Disagree, fmt.Sprintf("%s says %s, %s says %s", first.from, first.res, a.from, a.res))
				n := len(pf.Disagree)
				pf.mu.Unlock()
				os.WriteFile(fmt.Sprintf("%s/disagree-%d-%d.smt2", os.Getenv("VERIF_CROSSCHECK"), os.Getpid(), n), []byte("; "+first.from+"="+first.res+" "+a.from+"="+a.res+"\n"+script+"(check-sat)\n"), 0o644)
			}
		}
		done = make(chan struct{})
		atomic.StoreInt32(&answered, 1)
	} else {
		for got < started {
			a := <-ch
			got++
			if definite(a.res) {
				first = a
				atomic.StoreInt32(&answered, 1)
				close(done)
				break
			}
			notes = append(notes, a.from+": "+a.res)
		}
	}
	if definite(first.res) {
		// stop stragglers: they would only burn CPU (they restart lazily on next use)
		for _, p := range pf.procs {
			p.killIfRunning(qid)
		}
	}
	pf.mu.Lock()
	pf.Queries++
	pf.Time += time.Since(t0)
	if definite(first.res) {
		pf.ByWinner[first.from]++
		d := time.Since(t0)
		pf.procs[first.idx].wins++
		pf.avg = (pf.avg*7 + d) / 8
	} else {
		close(done)
		for _, n := range notes {
			if strings.Contains(n, "error") {
				pf.Errors = append(pf.Errors, n)
			}
		}
	}
	pf.mu.Unlock()
	if d := time.Since(t0); os.Getenv("VERIF_TRACE") != "" && d > 500*time.Millisecond {
		fmt.Fprintf(os.Stderr, "[slow query %.1fs] %s by %s; %d assertions, script %d bytes; notes %v\n", d.Seconds(), first.res, first.from, len(as), len(script), notes)
		if lf := os.Getenv("VERIF_SLOWDUMP"); lf != "" {
			os.WriteFile(fmt.Sprintf("%s.%d.smt2", lf, pf.Queries), []byte(script+"(check-sat)\n"), 0o644)
		}
	}
	if !definite(first.res) {
		return "unknown (" + strings.Join(notes, "; ") + ")", nil
	}
	return first.res, first.values
}

func (pf *Portfolio) Close() {
	for _, p := range pf.procs {
		// a straggler may still hold the lock; kill it
		if !p.mu.TryLock() {
			if p.cmd != nil && p.cmd.Process != nil {
				p.cmd.Process.Kill()
			}
			continue
		}
		p.close()
		p.mu.Unlock()
	}
}

func (pf *Portfolio) Names() []string {
	var n []string
	for _, p := range pf.procs {
		n = append(n, p.name)
	}
	return n
}

var _ = os.Stderr

package main

import (
	"encoding/json"
	"fmt"
	"go/ast"
	"go/parser"
	"go/token"
	"go/types"
	"os"
	"path/filepath"
	"runtime"
	"sort"
	"strings"
	"sync"
	"time"

	"golang.org/x/tools/go/packages"
	"golang.org/x/tools/go/ssa"
	"golang.org/x/tools/go/ssa/ssautil"
)

// repoMod is the module under analysis: /repo's current working tree. VERIF_REPO redirects the
// analysis to a scratch copy (used only to try seeded patches without touching /repo).
var repoMod = func() string {
	if v := os.Getenv("VERIF_REPO"); v != "" {
		return v
	}
	return "/repo/rolling-shutter"
}()

var verifDir = "/verif"

type TierCfg struct {
	Unwind     int            `json:"unwind"`
	Params     map[string]int `json:"params"`
	MaxPaths   int            `json:"max_paths"`
	TimeoutS   int            `json:"timeout_s"`
	QueryMs    int            `json:"query_ms"`
	Skip       bool           `json:"skip"`
	AllocBound int            `json:"alloc_bound"`
}

type HarnessCfg struct {
	Func     string  `json:"func"` // harness function (default: Name)
	Name     string  `json:"name"`
	What     string  `json:"what"`
	Quick    TierCfg `json:"quick"`
	Thorough TierCfg `json:"thorough"`
	Solvers  string  `json:"solvers"`
}

type GroupCfg struct {
	Pkg       string       `json:"pkg"`   // relative to the repo module, e.g. "app"
	Files     []string     `json:"files"` // harness files relative to /verif
	Harnesses []HarnessCfg `json:"harnesses"`
}

type CheckCfg struct {
	Property    string     `json:"property"`
	Groups      []GroupCfg `json:"groups"`
	Assumptions []string   `json:"assumptions"`
	Explanation string     `json:"explanation"`
	Outside     []string   `json:"outside_claim"`
}

type HarnessResult struct {
	Name        string
	Func        string
	What        string
	Pkg         string
	Paths       int
	PathsSym    int
	Oblig       int
	Discharged  int
	Sat         int
	Queries     int
	SolverS     float64
	WallS       float64
	Reached     []string
	Unreached   []string
	Findings    []Finding
	Incon       []string
	Faults      []string
	Functions   map[string]int
	Stubs       []string
	Samples     []string
	Bounds      map[string]int
	Unwind      int
	ByWinner    map[string]int
	Disagree    []string
	Notes       []string
	SolverErrs  []string
	Assumes     int
	SkippedTier bool
	AllocBound  int64
}

// stub targets whose stub is a model for the symbolic run only (native replay uses the real code)
var symbolicOnly = map[string]bool{}

type loaded struct {
	prog  *ssa.Program
	pkg   *ssa.Package
	fset  *token.FileSet
	stubs map[string]*ssa.Function
	rt    map[string]*ssa.Function
	loadS float64
	group GroupCfg
}

func loadGroup(g GroupCfg) (*loaded, error) {
	t0 := time.Now()
	pkgdir := filepath.Join(repoMod, g.Pkg)
	ov := map[string][]byte{}
	// determine the package name from an existing file of the package
	pkgName := ""
	ents, err := os.ReadDir(pkgdir)
	if err != nil {
		return nil, err
	}
	fs := token.NewFileSet()
	for _, en := range ents {
		if strings.HasSuffix(en.Name(), ".go") && !strings.HasSuffix(en.Name(), "_test.go") {
			af, err := parser.ParseFile(fs, filepath.Join(pkgdir, en.Name()), nil, parser.PackageClauseOnly)
			if err == nil {
				pkgName = af.Name.Name
				break
			}
		}
	}
	if pkgName == "" {
		return nil, fmt.Errorf("cannot determine package name of %s", pkgdir)
	}
	rtsrc, err := os.ReadFile(filepath.Join(verifDir, "harness/rt/rt.go.tmpl"))
	if err != nil {
		return nil, err
	}
	ov[filepath.Join(pkgdir, "zz_verif_rt.go")] = []byte(strings.Replace(string(rtsrc), "package PKGNAME", "package "+pkgName, 1))
	stubTargets := map[string]string{} // stub func name -> target full name
	for _, hf := range g.Files {
		src, err := os.ReadFile(filepath.Join(verifDir, hf))
		if err != nil {
			return nil, err
		}
		src = []byte(strings.Replace(string(src), "package PKGNAME", "package "+pkgName, 1))
		ov[filepath.Join(pkgdir, filepath.Base(hf))] = src
		af, err := parser.ParseFile(fs, hf, src, parser.ParseComments)
		if err != nil {
			return nil, err
		}
		for _, d := range af.Decls {
			fd, ok := d.(*ast.FuncDecl)
			if !ok || fd.Doc == nil {
				continue
			}
			for _, c := range fd.Doc.List {
				if strings.HasPrefix(c.Text, "//verif:stub ") {
					fields := strings.Fields(c.Text[len("//verif:stub "):])
					stubTargets[fd.Name.Name] = fields[0]
					for _, fl := range fields[1:] {
						if fl == "replay=real" {
							// a model used by the symbolic run only: the native replay runs the real function
							symbolicOnly[fields[0]] = true
						}
					}
				}
			}
		}
	}
	cfg := &packages.Config{Mode: packages.LoadAllSyntax, Dir: repoMod, Overlay: ov,
		Env: append(os.Environ(), "GOFLAGS=-mod=mod", "GOPROXY=off")}
	pkgs, err := packages.Load(cfg, "./"+g.Pkg)
	if err != nil {
		return nil, err
	}
	var errs []string
	packages.Visit(pkgs, nil, func(p *packages.Package) {
		for _, e := range p.Errors {
			errs = append(errs, e.Error())
		}
	})
	if len(errs) > 0 {
		return nil, fmt.Errorf("load errors:\n%s", strings.Join(errs, "\n"))
	}
	prog, spkgs := ssautil.AllPackages(pkgs, ssa.InstantiateGenerics)
	prog.Build()
	l := &loaded{prog: prog, pkg: spkgs[0], fset: prog.Fset, stubs: map[string]*ssa.Function{}, rt: map[string]*ssa.Function{}, group: g}
	for name, target := range stubTargets {
		fn := l.pkg.Func(name)
		if fn == nil {
			return nil, fmt.Errorf("stub function %s not found", name)
		}
		l.stubs[target] = fn
	}
	// every stub must have exactly the signature of its target (receiver first)
	var fcache map[string]*ssa.Function
	for target, st := range l.stubs {
		tf := findFunction(prog, target, &fcache)
		if tf == nil {
			continue // target not linked into this program: the stub is unused here
		}
		var want []types.Type
		if r := tf.Signature.Recv(); r != nil {
			want = append(want, r.Type())
		}
		for i := 0; i < tf.Signature.Params().Len(); i++ {
			want = append(want, tf.Signature.Params().At(i).Type())
		}
		ok := len(want) == st.Signature.Params().Len() && tf.Signature.Results().Len() == st.Signature.Results().Len()
		for i := 0; ok && i < len(want); i++ {
			ok = types.Identical(want[i], st.Signature.Params().At(i).Type())
		}
		for i := 0; ok && i < tf.Signature.Results().Len(); i++ {
			ok = types.Identical(tf.Signature.Results().At(i).Type(), st.Signature.Results().At(i).Type())
		}
		if !ok {
			return nil, fmt.Errorf("stub %s does not have the signature of its target %s: %s vs %s", st.Name(), target, st.Signature, tf.Signature)
		}
	}
	for name, m := range l.pkg.Members {
		if fn, ok := m.(*ssa.Function); ok && strings.HasPrefix(name, "vf") {
			l.rt[name] = fn
		}
	}
	l.loadS = time.Since(t0).Seconds()
	loadedMu.Lock()
	for _, h := range g.Harnesses {
		loadedByHarness[h.Name] = l
	}
	loadedMu.Unlock()
	return l, nil
}

// labelsOf collects the constant labels of vfReach calls reachable from fn through harness-file functions.
func labelsOf(l *loaded, fn *ssa.Function, seen map[*ssa.Function]bool, out map[string]bool) {
	if seen[fn] || len(seen) > 400 {
		return
	}
	seen[fn] = true
	for _, b := range fn.Blocks {
		for _, ins := range b.Instrs {
			var cc *ssa.CallCommon
			switch x := ins.(type) {
			case *ssa.Call:
				cc = &x.Call
			case *ssa.Defer:
				cc = &x.Call
			case *ssa.MakeClosure:
				if f2, ok := x.Fn.(*ssa.Function); ok {
					labelsOf(l, f2, seen, out)
				}
				continue
			default:
				continue
			}
			callee, ok := cc.Value.(*ssa.Function)
			if !ok {
				continue
			}
			if callee.Name() == "vfReach" && len(cc.Args) == 1 {
				if c, ok := cc.Args[0].(*ssa.Const); ok {
					out[strings.Trim(c.Value.ExactString(), "\"")] = true
				}
				continue
			}
			pos := l.fset.Position(callee.Pos())
			if strings.Contains(pos.Filename, "zz_verif_") && !strings.HasPrefix(callee.Name(), "vf") {
				labelsOf(l, callee, seen, out)
			}
		}
	}
}

func runHarness(l *loaded, h HarnessCfg, tier string) HarnessResult {
	t0 := time.Now()
	tc := h.Quick
	if tier == "thorough" {
		tc = h.Thorough
		if tc.Unwind == 0 && tc.Params == nil && tc.MaxPaths == 0 && tc.TimeoutS == 0 {
			tc = h.Quick
		}
	}
	r := HarnessResult{Name: h.Name, Func: h.Func, What: h.What, Pkg: l.group.Pkg, Bounds: tc.Params, Functions: map[string]int{}}
	if tc.Skip {
		r.SkippedTier = true
		return r
	}
	fname := h.Func
	if fname == "" {
		fname = h.Name
	}
	fn := l.pkg.Func(fname)
	if fn == nil {
		r.Faults = append(r.Faults, "harness function not found: "+h.Name)
		return r
	}
	qms := tc.QueryMs
	if qms == 0 {
		qms = 60000
		if tier == "thorough" {
			qms = 300000
		}
	}
	newSolver := func() (*Portfolio, error) {
		pf, err := NewPortfolio(qms, h.Solvers)
		if err == nil {
			if lf := os.Getenv("SMTLOG"); lf != "" {
				f, _ := os.OpenFile(lf+"."+h.Name+".smt2", os.O_APPEND|os.O_CREATE|os.O_WRONLY, 0o644)
				pf.Log = f
			}
		}
		return pf, err
	}
	e := &Engine{prog: l.prog, pkg: l.pkg, newSolver: newSolver, Harness: h.Name, Reached: map[string]bool{}, fset: l.fset,
		stubs: l.stubs, FnSeen: map[string]int{}, Stubs: map[string]bool{}, rtPkgFns: l.rt, MaxPaths: tc.MaxPaths}
	if tc.TimeoutS > 0 {
		e.deadline = time.Now().Add(time.Duration(tc.TimeoutS) * time.Second)
	}
	unwind := tc.Unwind
	if unwind == 0 {
		unwind = 8
	}
	r.Unwind = unwind
	alloc := int64(tc.AllocBound)
	if alloc == 0 {
		alloc = 1 << 16
	}
	r.AllocBound = alloc
	root := &State{Objs: map[int]Value{}, Globals: map[*ssa.Global]int{}, Names: map[string]int{}, Ghost: map[string]Value{},
		Inited: map[*ssa.Package]bool{}, Unwind: unwind, Alloc: alloc}
	params := tc.Params
	e.params = params
	labels := map[string]bool{}
	labelsOf(l, fn, map[*ssa.Function]bool{}, labels)
	func() {
		defer func() {
			if rec := recover(); rec != nil {
				if ee, ok := rec.(engineError); ok {
					e.Faults = append(e.Faults, "init: "+ee.msg)
					return
				}
				buf := make([]byte, 4096)
				n := runtime.Stack(buf, false)
				e.Faults = append(e.Faults, fmt.Sprintf("engine panic: %v\n%s", rec, buf[:n]))
			}
		}()
		e.cur = root
		pf0, err := newSolver()
		if err != nil {
			e.Faults = append(e.Faults, "solver start: "+err.Error())
			return
		}
		e.Solver = pf0
		e.runInit(root, l.pkg)
		e.Run(fn, root)
	}()
	r.Paths, r.PathsSym, r.Oblig, r.Discharged, r.Sat = e.Paths, e.PathsSym, e.Oblig, e.Dis, e.Sat
	r.ByWinner = map[string]int{}
	for _, pf := range e.SolverStats {
		r.Queries += pf.Queries
		r.SolverS += pf.Time.Seconds()
		for k, v := range pf.ByWinner {
			r.ByWinner[k] += v
		}
		r.Disagree = append(r.Disagree, pf.Disagree...)
		r.SolverErrs = append(r.SolverErrs, pf.Errors...)
	}
	r.SolverErrs = dedup(r.SolverErrs)
	r.Findings, r.Incon, r.Faults = e.Findings, dedup(e.Incon), dedup(e.Faults)
	r.Samples = e.Samples
	r.Notes = e.Axioms
	r.Assumes = e.Assumes
	if len(r.SolverErrs) > 5 {
		r.SolverErrs = r.SolverErrs[:5]
	}
	for k := range labels {
		if e.Reached[k] {
			r.Reached = append(r.Reached, k)
		} else {
			r.Unreached = append(r.Unreached, k)
		}
	}
	sort.Strings(r.Reached)
	sort.Strings(r.Unreached)
	for k, v := range e.FnSeen {
		if !strings.Contains(k, "vf") && !strings.Contains(k, "$") {
			r.Functions[k] = v
		}
	}
	for k := range e.Stubs {
		r.Stubs = append(r.Stubs, k)
	}
	sort.Strings(r.Stubs)
	r.WallS = time.Since(t0).Seconds()
	return r
}

func dedup(xs []string) []string {
	seen := map[string]bool{}
	var out []string
	for _, x := range xs {
		if !seen[x] {
			seen[x] = true
			out = append(out, x)
		}
	}
	return out
}

func main() {
	if len(os.Args) < 2 {
		fmt.Fprintln(os.Stderr, "usage: symgo check <id> <tier> | symgo run <pkg> <file> <harness> [unwind]")
		os.Exit(2)
	}
	if v := os.Getenv("VERIF_DIR"); v != "" {
		verifDir = v
	}
	errType = types.NewNamed(types.NewTypeName(token.NoPos, nil, "opaqueError", nil), types.NewStruct(nil, nil), nil)
	switch os.Args[1] {
	case "check":
		tier := "quick"
		if len(os.Args) > 3 {
			tier = os.Args[3]
		}
		os.Exit(cmdCheck(os.Args[2], tier))
	case "run":
		unwind := 8
		if len(os.Args) > 5 {
			fmt.Sscan(os.Args[5], &unwind)
		}
		params := map[string]int{}
		for _, kv := range strings.Split(os.Getenv("VERIF_PARAMS"), ",") {
			if i := strings.Index(kv, "="); i > 0 {
				var n int
				fmt.Sscan(kv[i+1:], &n)
				params[kv[:i]] = n
			}
		}
		g := GroupCfg{Pkg: os.Args[2], Files: strings.Split(os.Args[3], ","), Harnesses: []HarnessCfg{{Name: os.Args[4], Quick: TierCfg{Unwind: unwind, Params: params, TimeoutS: envInt("VERIF_TIMEOUT_S"), MaxPaths: envInt("VERIF_MAXPATHS")}, Solvers: os.Getenv("VERIF_SOLVERS")}}}
		l, err := loadGroup(g)
		if err != nil {
			fmt.Fprintln(os.Stderr, err)
			os.Exit(2)
		}
		tokens = make(chan struct{}, maxPar())
		tokens <- struct{}{}
		r := runHarness(l, g.Harnesses[0], "quick")
		printResult(r)
		os.MkdirAll("/tmp/verif-run", 0o755)
		for n, f := range r.Findings {
			path := fmt.Sprintf("/tmp/verif-run/%s-%d.json", r.Name, n)
			b, _ := json.MarshalIndent(map[string]interface{}{"harness": r.Name, "kind": f.Kind, "site": f.Where, "model": f.Model}, "", " ")
			os.WriteFile(path, b, 0o644)
			fmt.Printf("   replay of %s @ %s: %s\n", f.Kind, f.Where, replayFinding(CheckCfg{}, r, f, path))
		}
	default:
		fmt.Fprintln(os.Stderr, "unknown command")
		os.Exit(2)
	}
}

func printResult(r HarnessResult) {
	fmt.Printf("== %s: paths=%d (symbolic %d) obligations=%d discharged=%d sat=%d queries=%d solver=%.1fs wall=%.1fs winners=%v\n",
		r.Name, r.Paths, r.PathsSym, r.Oblig, r.Discharged, r.Sat, r.Queries, r.SolverS, r.WallS, r.ByWinner)
	fmt.Println("   reached:", r.Reached)
	if len(r.Unreached) > 0 {
		fmt.Println("   UNREACHED:", r.Unreached)
	}
	for _, i := range r.Incon {
		fmt.Println("   INCONCLUSIVE:", i)
	}
	for _, i := range r.Faults {
		fmt.Println("   ENGINE-FAULT:", i)
	}
	for _, i := range r.Disagree {
		fmt.Println("   SOLVER-DISAGREEMENT:", i)
	}
	for _, f := range r.Findings {
		fmt.Printf("   FINDING %s @ %s\n", f.Kind, f.Where)
		if f.Model != nil {
			var ks []string
			for k := range f.Model.Vars {
				ks = append(ks, k)
			}
			sort.Strings(ks)
			for _, k := range ks {
				fmt.Printf("       %s = 0x%s\n", k, f.Model.Vars[k])
			}
			for k, v := range f.Model.Bytes {
				fmt.Printf("       %s = bytes %s\n", k, v)
			}
		}
	}
}

// ---- check command ----

type KnownFinding struct {
	Property string `json:"property"`
	Status   string `json:"status"`
	Harness  string `json:"harness"`
	Kind     string `json:"kind"`
	Site     string `json:"site"`
	What     string `json:"what"`
	Commit   string `json:"commit"`
}

func cmdCheck(id, tier string) int {
	t0 := time.Now()
	var cfg CheckCfg
	raw, err := os.ReadFile(filepath.Join(verifDir, "checks", id+".json"))
	if err != nil {
		fmt.Fprintln(os.Stderr, err)
		return 2
	}
	if err := json.Unmarshal(raw, &cfg); err != nil {
		fmt.Fprintln(os.Stderr, "bad check config:", err)
		return 2
	}
	var known struct {
		Findings []KnownFinding `json:"findings"`
	}
	if raw, err := os.ReadFile(filepath.Join(verifDir, "known_findings.json")); err == nil {
		json.Unmarshal(raw, &known)
	}
	var results []HarnessResult
	var loadS float64
	var loadErrs []string
	var mu sync.Mutex
	tokens = make(chan struct{}, maxPar())
	for _, g := range cfg.Groups {
		l, err := loadGroup(g)
		if err != nil {
			loadErrs = append(loadErrs, g.Pkg+": "+err.Error())
			continue
		}
		loadS += l.loadS
		var wg sync.WaitGroup
		for _, h := range g.Harnesses {
			if only := os.Getenv("VERIF_ONLY"); only != "" && !strings.Contains(h.Name, only) {
				continue
			}
			wg.Add(1)
			tokens <- struct{}{}
			go func(h HarnessCfg) {
				defer wg.Done()
				defer func() { <-tokens }()
				r := runHarness(l, h, tier)
				mu.Lock()
				results = append(results, r)
				mu.Unlock()
				if os.Getenv("VERIF_VERBOSE") != "" {
					printResult(r)
				}
			}(h)
		}
		wg.Wait()
	}
	sort.Slice(results, func(i, j int) bool { return results[i].Name < results[j].Name })
	return report(cfg, tier, results, known.Findings, loadErrs, loadS, time.Since(t0).Seconds())
}

func maxPar() int {
	n := runtime.NumCPU() - 2
	if n < 1 {
		n = 1
	}
	if v := os.Getenv("VERIF_PAR"); v != "" {
		fmt.Sscan(v, &n)
	}
	return n
}

func envInt(k string) int {
	n := 0
	fmt.Sscan(os.Getenv(k), &n)
	return n
}

package main

// Symbolic interpreter for go/ssa.

import (
	"fmt"
	"os"
	"sync"
	"go/constant"
	"go/token"
	"go/types"
	"math/big"
	"sort"
	"strings"
	"time"

	"golang.org/x/tools/go/ssa"
)

type deferred struct {
	Fn   Value
	Args []Value
	Call *ssa.CallCommon
}

type Frame struct {
	Fn     *ssa.Function
	Block  *ssa.BasicBlock
	Prev   *ssa.BasicBlock
	PC     int
	Env    map[ssa.Value]Value
	Visits map[int]int // back-edge counter per block index
	Ret    ssa.Value   // call instruction awaiting result in caller (nil: discard)
	Defers []deferred
	Sync   bool // frame pushed by runSync: stop the nested loop when it returns
	RetVal Value
}

type State struct {
	Frames   []*Frame
	Objs     map[int]Value
	NextO    int
	PC       []*Term
	Globals  map[*ssa.Global]int
	Names    map[string]int
	Ghost    map[string]Value
	Inited   map[*ssa.Package]bool
	Trace    []string
	Branches int
	Extra    []*Term // terms whose model value is wanted (byte selects, UF apps)
	ExtraTag []string
	Unwind   int
	Alloc    int64 // allocation bound in bytes/elements
	PanicOK  bool  // panics are not violations for this harness
	Depth    int
	InitFailed map[*ssa.Package]string
	Lenient  int // lenient modelling choices taken on this path
}

func (s *State) clone() *State {
	n := &State{Objs: make(map[int]Value, len(s.Objs)), NextO: s.NextO, Unwind: s.Unwind, Alloc: s.Alloc, PanicOK: s.PanicOK, Branches: s.Branches, Lenient: s.Lenient}
	for k, v := range s.Objs {
		n.Objs[k] = v
	}
	n.PC = append([]*Term(nil), s.PC...)
	n.Globals = make(map[*ssa.Global]int, len(s.Globals))
	for k, v := range s.Globals {
		n.Globals[k] = v
	}
	n.Names = make(map[string]int, len(s.Names))
	for k, v := range s.Names {
		n.Names[k] = v
	}
	n.Ghost = make(map[string]Value, len(s.Ghost))
	for k, v := range s.Ghost {
		n.Ghost[k] = v
	}
	n.Inited = make(map[*ssa.Package]bool, len(s.Inited))
	for k, v := range s.Inited {
		n.Inited[k] = v
	}
	n.InitFailed = s.InitFailed
	n.Trace = append([]string(nil), s.Trace...)
	n.Extra = append([]*Term(nil), s.Extra...)
	n.ExtraTag = append([]string(nil), s.ExtraTag...)
	for _, f := range s.Frames {
		nf := *f
		nf.Env = make(map[ssa.Value]Value, len(f.Env))
		for k, v := range f.Env {
			nf.Env[k] = v
		}
		nf.Visits = make(map[int]int, len(f.Visits))
		for k, v := range f.Visits {
			nf.Visits[k] = v
		}
		nf.Defers = append([]deferred(nil), f.Defers...)
		n.Frames = append(n.Frames, &nf)
	}
	return n
}

func (s *State) alloc(v Value) int {
	s.NextO++
	s.Objs[s.NextO] = v
	return s.NextO
}

func (s *State) top() *Frame { return s.Frames[len(s.Frames)-1] }

type Finding struct {
	Kind     string // assert | panic | index | slice | nil-deref | div0 | alloc | unwind | typeassert | nil-map | unreachable-label
	Where    string
	Harness  string
	Model    *ModelOut
	Trace    []string
	Replayed string // "", "reproduced", "not-reproduced", "replay-error: ..."
	Lenient  int       // number of lenient modelling choices on the path (decode of an arbitrary string succeeds, ...)
	Alts     []Finding // further counterexamples for the same site from other paths (tried in replay if this one does not reproduce)
}

const maxAlts = 5

// addFinding records a counterexample; several per site are kept so that replay can fall back to
// one that does not depend on lenient modelling choices the native run cannot reproduce.
func addFinding(list []Finding, f Finding) []Finding {
	for i := range list {
		g := &list[i]
		if g.Kind == f.Kind && g.Where == f.Where {
			if len(g.Alts) < maxAlts {
				g.Alts = append(g.Alts, f)
			}
			return list
		}
	}
	return append(list, f)
}

type ModelOut struct {
	Vars  map[string]string            `json:"vars"`  // name#k -> hex value
	Bytes map[string]string            `json:"bytes"` // name#k -> hex string of bytes
	UF    map[string]map[string]string `json:"uf"`    // fn -> argkey -> value
	Order []string                     `json:"order,omitempty"`
	// concrete strings the code compares atoms with: atom value (hex) -> string, so that the
	// native runtime can hand out that very string when the model makes an atom equal to it
	Interned map[string]string `json:"interned,omitempty"`
}

type Engine struct {
	prog     *ssa.Program
	pkg      *ssa.Package
	Solver   *Portfolio
	Harness  string
	Findings []Finding
	Paths    int
	PathsSym int
	Oblig    int
	Dis      int
	Sat      int
	Reached  map[string]bool
	Labels   map[string]bool
	Incon    []string
	Faults   []string
	fset     *token.FileSet
	cur      *State
	stubs    map[string]*ssa.Function
	FnSeen   map[string]int
	Samples  []string
	Stubs    map[string]bool
	Assumes  int
	Axioms   []string
	initMode bool
	MaxPaths int
	deadline time.Time
	msets    map[string]*ssa.Function
	byteVars map[string]int // registered byte variables: name -> max
	rtPkgFns map[string]*ssa.Function
	params   map[string]int
	rawArrays bool
	newSolver func() (*Portfolio, error)
	SolverStats []*Portfolio
}

func (e *Engine) pos(i ssa.Instruction) string {
	p := e.fset.Position(i.Pos())
	if !p.IsValid() {
		return i.Parent().Name()
	}
	return fmt.Sprintf("%s:%d", p.Filename[strings.LastIndex(p.Filename, "/")+1:], p.Line)
}

// site names a location by function and expression text, not line number.
func (e *Engine) site(i ssa.Instruction) string {
	fn := i.Parent()
	for fn.Parent() != nil { // anonymous function: name the enclosing one
		fn = fn.Parent()
	}
	if fn.Origin() != nil {
		fn = fn.Origin()
	}
	if fn.Pkg == nil {
		return fn.Name()
	}
	if fn.Signature.Recv() != nil {
		return fn.RelString(fn.Pkg.Pkg)
	}
	return fn.Pkg.Pkg.Name() + "." + fn.Name()
}

// ---- memory access ----

func getPath(v Value, path []int) Value {
	for _, p := range path {
		switch x := v.(type) {
		case St:
			v = x.F[p]
		case Ar:
			v = x.E[p]
		case Opq:
			return x
		default:
			panic(engErr(fmt.Sprintf("getPath into %T", v)))
		}
	}
	return v
}

func setPath(v Value, path []int, nv Value) Value {
	if len(path) == 0 {
		return nv
	}
	switch x := v.(type) {
	case St:
		f := append([]Value(nil), x.F...)
		f[path[0]] = setPath(f[path[0]], path[1:], nv)
		return St{f}
	case Ar:
		el := append([]Value(nil), x.E...)
		el[path[0]] = setPath(el[path[0]], path[1:], nv)
		return Ar{el}
	case Opq:
		return x
	}
	panic(engErr(fmt.Sprintf("setPath into %T", v)))
}

func (s *State) load(p Ptr) Value     { return getPath(s.Objs[p.Obj], p.Path) }
func (s *State) store(p Ptr, v Value) { s.Objs[p.Obj] = setPath(s.Objs[p.Obj], p.Path, v) }
func sub(p Ptr, i int) Ptr {
	return Ptr{Obj: p.Obj, Path: append(append([]int(nil), p.Path...), i)}
}

// ---- constants ----

func constVal(c *ssa.Const) Value {
	t := c.Type()
	if c.Value == nil {
		return zero(t)
	}
	if isBool(t) {
		return Sc{Bool(constant.BoolVal(c.Value))}
	}
	if w, _, ok := intWidth(t); ok {
		bi, _ := new(big.Int).SetString(constant.ToInt(c.Value).ExactString(), 10)
		if bi == nil {
			v, _ := constant.Int64Val(constant.ToInt(c.Value))
			bi = big.NewInt(v)
		}
		return Sc{BV(bi, w)}
	}
	if isString(t) {
		return concStr(constant.StringVal(c.Value))
	}
	if b, ok := t.Underlying().(*types.Basic); ok && b.Info()&types.IsFloat != 0 {
		return Opq{"float"}
	}
	panic(engErr("const of type " + t.String()))
}

func (e *Engine) val(f *Frame, v ssa.Value) Value {
	switch x := v.(type) {
	case *ssa.Const:
		return constVal(x)
	case *ssa.Function:
		return Fn{F: x}
	case *ssa.Builtin:
		return x
	case *ssa.Global:
		return e.global(e.cur, x)
	}
	r, ok := f.Env[v]
	if !ok {
		panic(engErr(fmt.Sprintf("no value for %s (%T) in %s", v.Name(), v, f.Fn)))
	}
	return r
}

func (e *Engine) global(st *State, x *ssa.Global) Value {
	if id, ok := st.Globals[x]; ok {
		return Ptr{Obj: id}
	}
	et := x.Type().(*types.Pointer).Elem()
	pk := x.Pkg
	if v, ok := wellKnownGlobal(st, x); ok {
		id := st.alloc(v)
		st.Globals[x] = id
		return Ptr{Obj: id}
	}
	if pk != nil && e.transparentPkg(pk.Pkg.Path()) && !st.Inited[pk] && !e.initMode {
		e.runInit(st, pk)
		if id, ok := st.Globals[x]; ok {
			return Ptr{Obj: id}
		}
	}
	var init Value
	if types.Identical(et, types.Universe.Lookup("error").Type()) && (pk == nil || !e.transparentPkg(pk.Pkg.Path()) || e.initMode) {
		init = e.sentinel(x.String())
	} else if pk != nil && !e.transparentPkg(pk.Pkg.Path()) {
		if e.opaquePkg(pk.Pkg.Path()) {
			init = Opq{"global " + x.String()}
		} else if v, ok := knownGlobal(x); ok {
			init = v
		} else {
			panic(engErr("uninitialised global of dependency: " + x.String()))
		}
	} else if msg, bad := st.InitFailed[pk]; bad && pk != nil {
		if strings.Contains(e.fset.Position(x.Pos()).Filename, "zz_verif_") {
			init = zero(et) // harness globals carry no initialisers
		} else if types.Identical(et, types.Universe.Lookup("error").Type()) {
			init = e.sentinel(x.String())
		} else {
			panic(engErr("global " + x.String() + " of a package whose init could not be executed (" + msg + ")"))
		}
	} else {
		init = zero(et)
	}
	id := st.alloc(init)
	st.Globals[x] = id
	return Ptr{Obj: id}
}

var sentinels = map[string]int{}
var errCounter = 1000

func (e *Engine) sentinel(name string) Value {
	internMu.Lock()
	id, ok := sentinels[name]
	if !ok {
		id = len(sentinels) + 1
		sentinels[name] = id
	}
	internMu.Unlock()
	return If{T: errType, V: ErrV{ID: id, Name: name}}
}

func (e *Engine) newErr(s *State, where string, cause Value) Value {
	s.NextO++
	return If{T: errType, V: ErrV{ID: 1000000 + s.NextO, Name: where, Cause: cause}}
}

// ---- solver helpers ----

func (e *Engine) check(as []*Term, extra []*Term, model bool) (string, []*big.Int) {
	return e.Solver.Check(as, extra, model)
}

func (e *Engine) feasible(s *State, c *Term) bool {
	if c == True {
		return true
	}
	if c == False {
		return false
	}
	r, _ := e.check(append(sliceFor(s.PC, []*Term{c}), c), nil, false)
	if r != "sat" && r != "unsat" {
		e.Incon = append(e.Incon, "feasibility: "+r)
		return true
	}
	return r == "sat"
}

// decide returns True/False if the path condition determines c, else c itself.
func (e *Engine) decide(s *State, c *Term) *Term {
	if c == True || c == False {
		return c
	}
	if !e.feasible(s, c) {
		return False
	}
	if !e.feasible(s, Not(c)) {
		return True
	}
	return c
}

func (e *Engine) addPC(s *State, c *Term) {
	if c == True {
		return
	}
	s.PC = append(s.PC, c)
}

// oblige: violation condition v must be unsatisfiable under the path condition.
// Returns true if the obligation is discharged (v unsat).
func (e *Engine) oblige(s *State, v *Term, kind, where string) bool {
	e.Oblig++
	if v == False {
		e.Dis++
		return true
	}
	var vals []*big.Int
	r := "unsat"
	if v != True {
		// decide on the relevant slice first; the full query is only needed for a model
		r, _ = e.check(append(sliceFor(s.PC, []*Term{v}), v), nil, false)
	} else {
		r = "sat"
	}
	if r == "sat" {
		r, vals = e.check(append(append([]*Term(nil), s.PC...), v), s.Extra, true)
	}
	switch r {
	case "unsat":
		e.Dis++
		if len(e.Samples) < 6 {
			e.Samples = append(e.Samples, fmt.Sprintf("%s @ %s: unsat under %d path constraints; negated obligation: %s", kind, where, len(s.PC), v.String()))
		}
		return true
	case "sat":
		e.Sat++
		e.Findings = addFinding(e.Findings, Finding{Kind: kind, Where: where, Harness: e.Harness, Model: e.buildModel(s, vals), Trace: append([]string(nil), s.Trace...), Lenient: s.Lenient})
		return false
	default:
		e.Incon = append(e.Incon, kind+"@"+where+": "+r)
		return false
	}
}

func (e *Engine) buildModel(s *State, vals []*big.Int) *ModelOut {
	m := &ModelOut{Vars: map[string]string{}, Bytes: map[string]string{}, UF: map[string]map[string]string{}, Interned: map[string]string{}}
	internMu.Lock()
	for k, v := range internRev {
		m.Interned[k] = v
	}
	internMu.Unlock()
	if vals == nil {
		return m
	}
	bytesTmp := map[string]map[int]byte{}
	for i, t := range s.Extra {
		tag := s.ExtraTag[i]
		v := vals[i]
		switch {
		case strings.HasPrefix(tag, "v:"):
			m.Vars[tag[2:]] = v.Text(16)
		case strings.HasPrefix(tag, "b:"):
			// b:name:idx
			rest := tag[2:]
			k := strings.LastIndex(rest, ":")
			var idx int
			fmt.Sscan(rest[k+1:], &idx)
			if bytesTmp[rest[:k]] == nil {
				bytesTmp[rest[:k]] = map[int]byte{}
			}
			bytesTmp[rest[:k]][idx] = byte(v.Uint64())
		case strings.HasPrefix(tag, "w:"):
			rest := tag[2:]
			k := strings.LastIndex(rest, ":")
			var n int
			fmt.Sscan(rest[k+1:], &n)
			m.Bytes[rest[:k]] = fmt.Sprintf("%0*x", 2*n, v)
		case strings.HasPrefix(tag, "u:"):
			// u:fn:argindex... handled via order: tag = u:fn|k where args follow as a:...
			m.Order = append(m.Order, tag+"="+v.Text(16))
		case strings.HasPrefix(tag, "a:"):
			m.Order = append(m.Order, tag+"="+v.Text(16))
		}
		_ = t
	}
	for n, bm := range bytesTmp {
		mx := -1
		for i := range bm {
			if i > mx {
				mx = i
			}
		}
		b := make([]byte, mx+1)
		for i, v := range bm {
			b[i] = v
		}
		m.Bytes[n] = fmt.Sprintf("%x", b)
	}
	// fold UF applications: sequence "u:fn#n=val" followed by its "a:i=val" entries
	var cur string
	var args []string
	var res string
	flush := func() {
		if cur == "" {
			return
		}
		if m.UF[cur] == nil {
			m.UF[cur] = map[string]string{}
		}
		m.UF[cur][strings.Join(args, ",")] = res
	}
	for _, o := range m.Order {
		k := strings.Index(o, "=")
		tag, val := o[:k], o[k+1:]
		if strings.HasPrefix(tag, "u:") {
			flush()
			cur = tag[2:]
			res = val
			args = nil
		} else {
			args = append(args, val)
		}
	}
	flush()
	m.Order = nil
	return m
}

// ---- run ----

type abortPath struct{ reason string }

// shared work list of one harness run; several worker engines (each with its own solver
// processes) take states from it.
type sharedWork struct {
	mu      sync.Mutex
	cond    *sync.Cond
	work    []*State
	active  int
	paths   int
	stopped string
	wg      sync.WaitGroup
	helpers []*Engine
}

// tokens limits the number of concurrently running workers (each owns two solver processes).
var tokens chan struct{}

func (e *Engine) Run(fn *ssa.Function, root *State) {
	root.Frames = []*Frame{{Fn: fn, Block: fn.Blocks[0], Env: map[ssa.Value]Value{}, Visits: map[int]int{}}}
	sh := &sharedWork{work: []*State{root}}
	sh.cond = sync.NewCond(&sh.mu)
	e.workerLoop(sh, true)
	sh.wg.Wait()
	for _, h := range sh.helpers {
		e.merge(h)
	}
	if sh.stopped != "" {
		e.Incon = append(e.Incon, sh.stopped)
	}
}

func (e *Engine) helper() *Engine {
	h := &Engine{prog: e.prog, pkg: e.pkg, Harness: e.Harness, Reached: map[string]bool{}, fset: e.fset, stubs: e.stubs,
		FnSeen: map[string]int{}, Stubs: map[string]bool{}, rtPkgFns: e.rtPkgFns, MaxPaths: e.MaxPaths, deadline: e.deadline,
		params: e.params, newSolver: e.newSolver}
	return h
}

func (e *Engine) merge(h *Engine) {
	e.Paths += h.Paths
	e.PathsSym += h.PathsSym
	e.Oblig += h.Oblig
	e.Dis += h.Dis
	e.Sat += h.Sat
	e.Assumes += h.Assumes
	for _, f := range h.Findings {
		alts := f.Alts
		f.Alts = nil
		e.Findings = addFinding(e.Findings, f)
		for _, a := range alts {
			e.Findings = addFinding(e.Findings, a)
		}
	}
	e.Incon = append(e.Incon, h.Incon...)
	e.Faults = append(e.Faults, h.Faults...)
	for k := range h.Reached {
		e.Reached[k] = true
	}
	for k, v := range h.FnSeen {
		e.FnSeen[k] += v
	}
	for k := range h.Stubs {
		e.Stubs[k] = true
	}
	for _, s := range h.Samples {
		if len(e.Samples) < 6 {
			e.Samples = append(e.Samples, s)
		}
	}
	for _, a := range h.Axioms {
		e.noteBound(a)
	}
	e.SolverStats = append(e.SolverStats, h.SolverStats...)
}

func (e *Engine) workerLoop(sh *sharedWork, main bool) {
	defer func() {
		if e.Solver != nil {
			e.SolverStats = append(e.SolverStats, e.Solver)
			e.Solver.Close()
		}
	}()
	for {
		sh.mu.Lock()
		for len(sh.work) == 0 && sh.active > 0 && main {
			sh.cond.Wait()
		}
		if len(sh.work) == 0 || sh.stopped != "" {
			sh.mu.Unlock()
			return
		}
		if e.MaxPaths > 0 && sh.paths >= e.MaxPaths {
			sh.stopped = fmt.Sprintf("path budget %d exhausted with %d states pending", e.MaxPaths, len(sh.work))
			sh.mu.Unlock()
			return
		}
		if !e.deadline.IsZero() && time.Now().After(e.deadline) {
			sh.stopped = fmt.Sprintf("time budget exhausted with %d states pending", len(sh.work))
			sh.mu.Unlock()
			return
		}
		s := sh.work[len(sh.work)-1]
		sh.work = sh.work[:len(sh.work)-1]
		sh.active++
		sh.paths++
		// spawn helpers while there is a backlog and spare capacity
		for spare := len(sh.work); spare > 0; spare-- {
			select {
			case tokens <- struct{}{}:
				h := e.helper()
				sh.helpers = append(sh.helpers, h)
				sh.wg.Add(1)
				go func() {
					defer sh.wg.Done()
					defer func() { <-tokens }()
					h.workerLoop(sh, false)
				}()
				continue
			default:
			}
			break
		}
		sh.mu.Unlock()
		if e.Solver == nil {
			pf, err := e.newSolver()
			if err != nil {
				e.Faults = append(e.Faults, "solver start: "+err.Error())
				sh.mu.Lock()
				sh.active--
				sh.stopped = "solver start failed"
				sh.cond.Broadcast()
				sh.mu.Unlock()
				return
			}
			e.Solver = pf
		}
		forks := e.runPath(s)
		sh.mu.Lock()
		sh.work = append(sh.work, forks...)
		sh.active--
		sh.cond.Broadcast()
		sh.mu.Unlock()
	}
}

func (e *Engine) endPath(s *State) {
	e.Paths++
	if os.Getenv("VERIF_TRACE") != "" && e.Paths%20 == 0 {
		fmt.Fprintf(os.Stderr, "[%s] paths=%d obligations=%d queries=%d trace=%v\n", e.Harness, e.Paths, e.Oblig, e.Solver.Queries, s.Trace)
		_ = 0
	}
	if s.Branches > 0 {
		e.PathsSym++
	}
}

// runPath executes until the path ends or forks; returns forked states.
func (e *Engine) runPath(s *State) (forks []*State) {
	defer func() {
		if r := recover(); r != nil {
			switch x := r.(type) {
			case abortPath:
				if x.reason != "" {
					e.Incon = append(e.Incon, x.reason)
				}
				e.endPath(s)
			case engineError:
				where := ""
				if len(s.Frames) > 0 {
					f := s.top()
					if f.PC > 0 && f.PC <= len(f.Block.Instrs) {
						where = " at " + e.pos(f.Block.Instrs[f.PC-1]) + " in " + f.Fn.String()
					}
				}
				e.Faults = append(e.Faults, x.msg+where)
				e.endPath(s)
			default:
				panic(r)
			}
		}
	}()
	e.cur = s
	for {
		if len(s.Frames) == 0 {
			e.endPath(s)
			return forks
		}
		f := s.top()
		ins := f.Block.Instrs[f.PC]
		f.PC++
		more, stop := e.step(s, f, ins)
		forks = append(forks, more...)
		if stop {
			return forks
		}
	}
}

// runSync runs fn to completion on s (no forking allowed).
func (e *Engine) runSync(s *State, fn *ssa.Function, args []Value) Value {
	nf := &Frame{Fn: fn, Block: fn.Blocks[0], Env: map[ssa.Value]Value{}, Visits: map[int]int{}, Sync: true}
	for i, p := range fn.Params {
		nf.Env[p] = args[i]
	}
	depth := len(s.Frames)
	s.Frames = append(s.Frames, nf)
	saved := e.cur
	e.cur = s
	defer func() { e.cur = saved }()
	for len(s.Frames) > depth {
		f := s.top()
		ins := f.Block.Instrs[f.PC]
		f.PC++
		more, stop := e.step(s, f, ins)
		if len(more) > 0 || stop {
			panic(engErr("fork inside synchronous execution of " + fn.String() + " at " + e.pos(ins) + " in " + f.Fn.String() + ": " + ins.String()))
		}
	}
	return nf.RetVal
}

func (e *Engine) runInit(s *State, pk *ssa.Package) {
	if s.Inited[pk] {
		return
	}
	s.Inited[pk] = true
	init := pk.Func("init")
	if init == nil || len(init.Blocks) == 0 {
		return
	}
	saved := e.initMode
	e.initMode = true
	depth := len(s.Frames)
	defer func() {
		e.initMode = saved
		if r := recover(); r != nil {
			ee, ok := r.(engineError)
			if !ok {
				panic(r)
			}
			// fail closed: globals of this package that were not initialised yet become unusable
			s.Frames = s.Frames[:depth]
			if s.InitFailed == nil {
				s.InitFailed = map[*ssa.Package]string{}
			}
			s.InitFailed[pk] = ee.msg
		}
	}()
	e.runSync(s, init, nil)
}

func (e *Engine) jump(s *State, f *Frame, to *ssa.BasicBlock) {
	if to.Dominates(f.Block) { // back edge
		f.Visits[to.Index]++
		// a new iteration of this loop: inner loops start counting afresh
		for k := range f.Visits {
			if k != to.Index && to.Dominates(f.Fn.Blocks[k]) {
				delete(f.Visits, k)
			}
		}
		if f.Visits[to.Index] > s.Unwind {
			if e.feasible(s, True) {
				where := f.Fn.Name()
				if e.initMode {
					panic(engErr("unwind bound in init of " + where))
				}
				e.unwindExceeded(s, f, where)
			}
			panic(abortPath{})
		}
	}
	from := f.Block
	f.Prev, f.Block, f.PC = from, to, 0
	// parallel phi assignment
	var vals []Value
	var phis []*ssa.Phi
	for _, ins := range to.Instrs {
		phi, ok := ins.(*ssa.Phi)
		if !ok {
			break
		}
		for i, p := range to.Preds {
			if p == from {
				vals = append(vals, e.val(f, phi.Edges[i]))
				phis = append(phis, phi)
				break
			}
		}
		f.PC++
	}
	for i, phi := range phis {
		f.Env[phi] = vals[i]
	}
}

// unwindExceeded: a loop can continue beyond the unwinding bound.
func (e *Engine) unwindExceeded(s *State, f *Frame, where string) {
	e.Oblig++
	e.Incon = append(e.Incon, fmt.Sprintf("unwinding bound %d exceeded in %s", s.Unwind, where))
}

type alt struct {
	cond  *Term
	apply func(ns *State, nf *Frame)
	note  string
}

// forkOn splits the current state on the given alternatives. If exactly one is feasible it is
// applied in place and execution continues (stop=false).
func (e *Engine) forkOn(s *State, f *Frame, alts []alt) (forks []*State, stop bool) {
	var feas []alt
	for i, a := range alts {
		// the last alternative is feasible if no earlier one was (path is satisfiable)
		if i == len(alts)-1 && len(feas) == 0 {
			feas = append(feas, a)
			break
		}
		if e.feasible(s, a.cond) {
			feas = append(feas, a)
		}
	}
	if len(feas) == 1 {
		a := feas[0]
		e.addPC(s, a.cond)
		e.inPlace(s, f, a)
		return nil, false
	}
	s.Branches++
	for i := len(feas) - 1; i >= 0; i-- {
		a := feas[i]
		ns := s.clone()
		e.addPC(ns, a.cond)
		if a.note != "" {
			ns.Trace = append(ns.Trace, a.note)
		}
		nf := ns.top()
		if e.applySafe(ns, nf, a) {
			forks = append(forks, ns)
		}
	}
	return forks, true
}

func (e *Engine) inPlace(s *State, f *Frame, a alt) {
	a.apply(s, f)
}

// applySafe applies an alternative on a forked state, catching path aborts.
func (e *Engine) applySafe(ns *State, nf *Frame, a alt) (ok bool) {
	saved := e.cur
	e.cur = ns
	defer func() {
		e.cur = saved
		if r := recover(); r != nil {
			switch x := r.(type) {
			case abortPath:
				if x.reason != "" {
					e.Incon = append(e.Incon, x.reason)
				}
				e.endPath(ns)
				ok = false
			case engineError:
				e.Faults = append(e.Faults, x.msg+" (in fork)")
				e.endPath(ns)
				ok = false
			default:
				panic(r)
			}
		}
	}()
	a.apply(ns, nf)
	return true
}

func (e *Engine) step(s *State, f *Frame, ins ssa.Instruction) (forks []*State, stop bool) {
	e.FnSeen[f.Fn.String()]++
	switch x := ins.(type) {
	case *ssa.DebugRef:
	case *ssa.Alloc:
		id := s.alloc(zero(x.Type().(*types.Pointer).Elem()))
		f.Env[x] = Ptr{Obj: id}
	case *ssa.Store:
		e.storeTo(s, e.val(f, x.Addr), e.val(f, x.Val), x)
	case *ssa.UnOp:
		return e.unop(s, f, x)
	case *ssa.BinOp:
		f.Env[x] = e.binop(s, x, e.val(f, x.X), e.val(f, x.Y))
	case *ssa.Phi:
		// handled in jump; entry block has no phis
		panic(engErr("stray phi"))
	case *ssa.Jump:
		e.jump(s, f, f.Block.Succs[0])
	case *ssa.If:
		c := e.val(f, x.Cond).(Sc).T
		b := f.Block
		return e.forkOn(s, f, []alt{
			{c, func(ns *State, nf *Frame) { e.jump(ns, nf, b.Succs[0]) }, e.pos(x) + ":T"},
			{Not(c), func(ns *State, nf *Frame) { e.jump(ns, nf, b.Succs[1]) }, e.pos(x) + ":F"},
		})
	case *ssa.Return:
		var rv Value
		if len(x.Results) == 1 {
			rv = e.val(f, x.Results[0])
		} else if len(x.Results) > 1 {
			t := Tu{}
			for _, r := range x.Results {
				t.E = append(t.E, e.val(f, r))
			}
			rv = t
		}
		e.ret(s, f, rv)
	case *ssa.Extract:
		switch t := e.val(f, x.Tuple).(type) {
		case Tu:
			f.Env[x] = t.E[x.Index]
		case Opq:
			f.Env[x] = e.opaqueResult(s, x.Type(), "extract")
		default:
			panic(engErr(fmt.Sprintf("extract from %T", t)))
		}
	case *ssa.FieldAddr:
		switch p := e.val(f, x.X).(type) {
		case Ptr:
			if p.Nil {
				e.violation(s, "nil-deref", e.site(x)+": field of nil pointer "+x.X.Name())
				panic(abortPath{})
			}
			f.Env[x] = sub(p, x.Field)
		case Opq:
			f.Env[x] = p
		default:
			panic(engErr(fmt.Sprintf("fieldaddr of %T", p)))
		}
	case *ssa.Field:
		switch v := e.val(f, x.X).(type) {
		case St:
			f.Env[x] = v.F[x.Field]
		case Opq:
			f.Env[x] = v
		default:
			panic(engErr(fmt.Sprintf("field of %T", v)))
		}
	case *ssa.IndexAddr:
		return e.indexAddr(s, f, x)
	case *ssa.Index:
		return e.index(s, f, x)
	case *ssa.Slice:
		return e.slice(s, f, x)
	case *ssa.MakeSlice:
		return e.makeSlice(s, f, x)
	case *ssa.MakeMap:
		f.Env[x] = Mp{Obj: s.alloc(&MapData{})}
	case *ssa.MakeChan:
		f.Env[x] = Ch{Obj: s.alloc(&ChanData{})}
	case *ssa.Send:
		ch := e.val(f, x.Chan).(Ch)
		if ch.Nil {
			panic(abortPath{}) // blocks forever
		}
		cd := s.Objs[ch.Obj].(*ChanData)
		s.Objs[ch.Obj] = &ChanData{Q: append(append([]Value(nil), cd.Q...), e.val(f, x.X))}
	case *ssa.MapUpdate:
		return e.mapUpdate(s, f, x)
	case *ssa.Lookup:
		return e.lookup(s, f, x)
	case *ssa.Range:
		switch m := e.val(f, x.X).(type) {
		case Mp:
			f.Env[x] = It{Obj: m.Obj}
			if m.Nil {
				f.Env[x] = It{Obj: -1}
			}
		case Str:
			if m.Kind != 0 {
				panic(engErr("range over symbolic string"))
			}
			f.Env[x] = It{Obj: -2 - s.alloc(m)}
		default:
			panic(engErr(fmt.Sprintf("range over %T", m)))
		}
	case *ssa.Next:
		return e.next(s, f, x)
	case *ssa.Convert:
		f.Env[x] = e.convert(s, x, e.val(f, x.X))
	case *ssa.ChangeType:
		f.Env[x] = e.val(f, x.X)
	case *ssa.MakeInterface:
		v := e.val(f, x.X)
		if o, ok := v.(Opq); ok {
			f.Env[x] = o
		} else if i, ok := v.(If); ok && i.T == errType {
			f.Env[x] = i
		} else {
			f.Env[x] = If{T: x.X.Type(), V: v}
		}
	case *ssa.ChangeInterface:
		f.Env[x] = e.val(f, x.X)
	case *ssa.TypeAssert:
		return e.typeAssert(s, f, x)
	case *ssa.MakeClosure:
		fn := x.Fn.(*ssa.Function)
		var b []Value
		for _, bv := range x.Bindings {
			b = append(b, e.val(f, bv))
		}
		f.Env[x] = Fn{F: fn, Bind: b}
	case *ssa.Call:
		return e.call(s, f, x, &x.Call, x)
	case *ssa.Defer:
		var args []Value
		for _, a := range x.Call.Args {
			args = append(args, e.val(f, a))
		}
		var fv Value
		if !x.Call.IsInvoke() {
			fv = e.val(f, x.Call.Value)
		} else {
			fv = e.val(f, x.Call.Value)
		}
		f.Defers = append(f.Defers, deferred{Fn: fv, Args: args, Call: &x.Call})
	case *ssa.RunDefers:
		if len(f.Defers) > 0 {
			d := f.Defers[len(f.Defers)-1]
			f.Defers = f.Defers[:len(f.Defers)-1]
			f.PC-- // come back for the remaining defers
			return e.callValue(s, f, nil, d.Call, d.Fn, d.Args, nil)
		}
	case *ssa.Panic:
		v := e.val(f, x.X)
		msg := "panic"
		if i, ok := v.(If); ok {
			if st, ok := i.V.(Str); ok && st.Kind == 0 {
				msg = "panic: " + st.Conc
			}
		}
		e.violation(s, "panic", e.site(x)+": "+msg)
		panic(abortPath{})
	case *ssa.Go:
		panic(engErr("go statement"))
	case *ssa.Select:
		return e.selectStmt(s, f, x)
	case *ssa.SliceToArrayPointer:
		// (*[N]byte)(s) / [N]byte(s) of a byte slice: panics if len(s) < N. The result points at a
		// copy of the first N bytes (conversions to an array value dereference it at once; aliasing
		// through the pointer form is not modelled)
		at, _ := deref(x.Type()).Underlying().(*types.Array)
		b, isB := e.val(f, x.X).(BSl)
		if at == nil || !isB {
			panic(engErr("slice to array pointer (non-byte slice)"))
		}
		n := int(at.Len())
		if b.Nil {
			if n > 0 {
				e.violation(s, "slice", e.site(x)+": conversion of a nil slice to an array of length > 0")
				panic(abortPath{})
			}
			f.Env[x] = Ptr{Obj: s.alloc(BA{A: ZeroMem, N: 0})}
			return nil, false
		}
		bad := Ult(b.Len, Idx(n))
		if !e.oblige(s, bad, "slice", e.site(x)+": conversion of a slice to an array longer than the slice") {
			if !e.feasible(s, Not(bad)) {
				panic(abortPath{})
			}
		}
		e.addPC(s, Not(bad))
		src := s.load(b.Loc).(BA).A
		arr := ZeroMem
		for i := 0; i < n; i++ {
			arr = Store(arr, Idx(i), Select(src, Add(b.Off, Idx(i))))
		}
		f.Env[x] = Ptr{Obj: s.alloc(BA{A: arr, N: n})}
		return nil, false
	default:
		panic(engErr(fmt.Sprintf("unsupported instruction %T: %s", ins, ins)))
	}
	return nil, false
}

// violation records that the current path (which is feasible) reaches a failure.
func (e *Engine) violation(s *State, kind, where string) {
	if e.initMode {
		panic(engErr("failure during package init: " + kind + " " + where))
	}
	if s.PanicOK && kind != "assert" && kind != "alloc" {
		e.Oblig++
		e.Dis++
		return
	}
	e.oblige(s, True, kind, where)
}

func (e *Engine) ret(s *State, f *Frame, rv Value) {
	s.Frames = s.Frames[:len(s.Frames)-1]
	f.RetVal = rv
	if len(s.Frames) > 0 && f.Ret != nil {
		s.top().Env[f.Ret] = rv
	}
}

func (e *Engine) storeTo(s *State, addr Value, v Value, at ssa.Instruction) {
	switch p := addr.(type) {
	case Ptr:
		if p.Nil {
			e.violation(s, "nil-deref", e.site(at)+": store through nil pointer")
			panic(abortPath{})
		}
		s.store(p, v)
	case BPtr:
		ba := s.load(p.Loc).(BA)
		s.store(p.Loc, BA{A: Store(ba.A, p.Idx, v.(Sc).T), N: ba.N})
	case Opq:
	default:
		panic(engErr(fmt.Sprintf("store to %T", addr)))
	}
}

func (e *Engine) loadFrom(s *State, addr Value, at ssa.Instruction) Value {
	switch p := addr.(type) {
	case Ptr:
		if p.Nil {
			e.violation(s, "nil-deref", e.site(at)+": load through nil pointer")
			panic(abortPath{})
		}
		return s.load(p)
	case BPtr:
		ba := s.load(p.Loc).(BA)
		return Sc{Select(ba.A, p.Idx)}
	case Opq:
		return p
	}
	panic(engErr(fmt.Sprintf("load from %T", addr)))
}

func (e *Engine) unop(s *State, f *Frame, x *ssa.UnOp) (forks []*State, stop bool) {
	v := e.val(f, x.X)
	switch x.Op {
	case token.MUL:
		f.Env[x] = e.loadFrom(s, v, x)
	case token.NOT:
		f.Env[x] = Sc{Not(v.(Sc).T)}
	case token.SUB:
		if _, ok := v.(Opq); ok {
			f.Env[x] = v
			break
		}
		t := v.(Sc).T
		f.Env[x] = Sc{BinBV("bvsub", BVu(0, t.S.W), t)}
	case token.XOR:
		t := v.(Sc).T
		f.Env[x] = Sc{BinBV("bvxor", t, BV(mask(t.S.W), t.S.W))}
	case token.ARROW:
		ch, ok := v.(Ch)
		if !ok {
			// receive from an opaque channel (ctx.Done()): never ready
			panic(abortPath{})
		}
		if ch.Nil {
			panic(abortPath{})
		}
		cd := s.Objs[ch.Obj].(*ChanData)
		if len(cd.Q) == 0 {
			panic(abortPath{})
		}
		s.Objs[ch.Obj] = &ChanData{Q: append([]Value(nil), cd.Q[1:]...)}
		if x.CommaOk {
			f.Env[x] = Tu{[]Value{cd.Q[0], Sc{True}}}
		} else {
			f.Env[x] = cd.Q[0]
		}
	default:
		panic(engErr("unop " + x.Op.String()))
	}
	return nil, false
}

func strCmpLess(a, b Str) *Term {
	if a.Kind == 0 && b.Kind == 0 {
		return Bool(a.Conc < b.Conc)
	}
	a1, l1, m1, ok1 := a.asBytes()
	a2, l2, m2, ok2 := b.asBytes()
	if !ok1 || !ok2 {
		panic(engErr("ordering comparison on atom strings"))
	}
	c := bytesCompare(a1, Idx(0), l1, m1, a2, Idx(0), l2, m2)
	return Slt(c, BVu(0, 64))
}

// bytesCompare returns a 64-bit term in {-1,0,1}; built from boolean lt/gt formulas so that
// comparisons of the result with 0 simplify to pure boolean structure.
func bytesCompare(a1, o1, l1 *Term, m1 int, a2, o2, l2 *Term, m2 int) *Term {
	if l1.IsConst() && l2.IsConst() && l1 == l2 {
		n := int(l1.Val.Int64())
		if n == 0 {
			return BVu(0, 64)
		}
		w1, w2 := WordOf(a1, o1, n), WordOf(a2, o2, n)
		return Ite(Ult(w1, w2), BVi(-1, 64), Ite(Ult(w2, w1), BVu(1, 64), BVu(0, 64)))
	}
	m := m1
	if m2 < m {
		m = m2
	}
	prefix := True // all earlier positions are in range and equal
	var lts, gts []*Term
	for i := 0; i < m; i++ {
		ii := Idx(i)
		x, y := Select(a1, Add(o1, ii)), Select(a2, Add(o2, ii))
		in := And(Ult(ii, l1), Ult(ii, l2))
		lts = append(lts, And(prefix, in, Ult(x, y)))
		gts = append(gts, And(prefix, in, Ult(y, x)))
		prefix = And(prefix, Implies(in, Eq(x, y)))
		if prefix == False {
			break
		}
	}
	lts = append(lts, And(prefix, Ult(l1, l2)))
	gts = append(gts, And(prefix, Ult(l2, l1)))
	return Ite(Or(lts...), BVi(-1, 64), Ite(Or(gts...), BVu(1, 64), BVu(0, 64)))
}

func (e *Engine) binop(s *State, x *ssa.BinOp, a, b Value) Value {
	if _, ok := a.(Opq); ok {
		if _, isSc := b.(Sc); isSc || true {
			return e.opaqueResult(s, x.Type(), "binop")
		}
	}
	if _, ok := b.(Opq); ok {
		return e.opaqueResult(s, x.Type(), "binop")
	}
	if sa, ok := a.(Str); ok {
		sb := b.(Str)
		switch x.Op {
		case token.EQL:
			return Sc{strEq(sa, sb)}
		case token.NEQ:
			return Sc{Not(strEq(sa, sb))}
		case token.ADD:
			if sa.Kind == 0 && sb.Kind == 0 {
				return concStr(sa.Conc + sb.Conc)
			}
			return e.strConcat(s, sa, sb)
		case token.LSS:
			return Sc{strCmpLess(sa, sb)}
		case token.GTR:
			return Sc{strCmpLess(sb, sa)}
		case token.LEQ:
			return Sc{Not(strCmpLess(sb, sa))}
		case token.GEQ:
			return Sc{Not(strCmpLess(sa, sb))}
		}
		panic(engErr("string binop " + x.Op.String()))
	}
	if _, ok := a.(Sc); !ok {
		switch x.Op {
		case token.EQL:
			return Sc{eqVal(a, b)}
		case token.NEQ:
			return Sc{Not(eqVal(a, b))}
		}
		panic(engErr(fmt.Sprintf("binop %s on %T", x.Op, a)))
	}
	p, q := a.(Sc).T, b.(Sc).T
	if p.S.K == 0 {
		switch x.Op {
		case token.EQL:
			return Sc{Eq(p, q)}
		case token.NEQ:
			return Sc{Not(Eq(p, q))}
		case token.AND:
			return Sc{And(p, q)}
		case token.OR:
			return Sc{Or(p, q)}
		}
		panic(engErr("bool binop " + x.Op.String()))
	}
	_, sg, _ := intWidth(x.X.Type())
	if q.S.W != p.S.W { // shifts may have differently sized counts
		if x.Op == token.SHL || x.Op == token.SHR {
			if q.S.W < p.S.W {
				q = ZExt(p.S.W-q.S.W, q)
			} else {
				// a huge shift count must not be truncated into a small one
				big := Not(Eq(Extract(q.S.W-1, p.S.W, q), BVu(0, q.S.W-p.S.W)))
				q = Ite(big, BVu(uint64(p.S.W), p.S.W), Extract(p.S.W-1, 0, q))
			}
		} else {
			panic(engErr("binop width mismatch"))
		}
	}
	pick := func(u, sgn string) string {
		if sg {
			return sgn
		}
		return u
	}
	switch x.Op {
	case token.ADD:
		return Sc{BinBV("bvadd", p, q)}
	case token.SUB:
		return Sc{BinBV("bvsub", p, q)}
	case token.MUL:
		return Sc{BinBV("bvmul", p, q)}
	case token.QUO, token.REM:
		z := Eq(q, BVu(0, q.S.W))
		if z != False {
			if !e.oblige(s, z, "div0", e.site(x)+": division by zero") {
				if !e.feasible(s, Not(z)) {
					panic(abortPath{})
				}
			}
			e.addPC(s, Not(z))
		}
		if x.Op == token.QUO {
			return Sc{BinBV(pick("bvudiv", "bvsdiv"), p, q)}
		}
		return Sc{BinBV(pick("bvurem", "bvsrem"), p, q)}
	case token.AND:
		return Sc{BinBV("bvand", p, q)}
	case token.OR:
		return Sc{BinBV("bvor", p, q)}
	case token.XOR:
		return Sc{BinBV("bvxor", p, q)}
	case token.SHL:
		return Sc{BinBV("bvshl", p, q)}
	case token.SHR:
		return Sc{BinBV(pick("bvlshr", "bvashr"), p, q)}
	case token.AND_NOT:
		return Sc{BinBV("bvand", p, BinBV("bvxor", q, BV(mask(q.S.W), q.S.W)))}
	case token.EQL:
		return Sc{Eq(p, q)}
	case token.NEQ:
		return Sc{Not(Eq(p, q))}
	case token.LSS:
		return Sc{CmpBV(pick("bvult", "bvslt"), p, q)}
	case token.LEQ:
		return Sc{CmpBV(pick("bvule", "bvsle"), p, q)}
	case token.GTR:
		return Sc{CmpBV(pick("bvult", "bvslt"), q, p)}
	case token.GEQ:
		return Sc{CmpBV(pick("bvule", "bvsle"), q, p)}
	}
	panic(engErr("binop " + x.Op.String()))
}

func (e *Engine) strConcat(s *State, a, b Str) Value {
	a1, l1, m1, ok1 := a.asBytes()
	a2, l2, m2, ok2 := b.asBytes()
	if !ok1 || !ok2 {
		// opaque result: a fresh atom determined by the operands
		return Str{Kind: 1, Atom: App("strconcat", BVS(64), strAtom(a), strAtom(b))}
	}
	arr := a1
	for j := 0; j < m2; j++ {
		jj := Idx(j)
		at := Add(l1, jj)
		arr = Ite(Ult(jj, l2), Store(arr, at, Select(a2, jj)), arr)
	}
	return Str{Kind: 2, A: arr, Len: Add(l1, l2), Max: m1 + m2}
}

func strAtom(a Str) *Term {
	switch a.Kind {
	case 0:
		return internStr(a.Conc)
	case 1:
		return a.Atom
	}
	panic(engErr("byte string used where an atom is needed"))
}

func (e *Engine) convert(s *State, x *ssa.Convert, v Value) Value {
	if o, ok := v.(Opq); ok {
		if _, _, isInt := intWidth(x.Type()); isInt {
			return e.opaqueResult(s, x.Type(), "convert")
		}
		return o
	}
	fw, fs, ok1 := intWidth(x.X.Type())
	tw, _, ok2 := intWidth(x.Type())
	if ok1 && ok2 {
		t := v.(Sc).T
		switch {
		case tw == fw:
			return v
		case tw < fw:
			return Sc{Extract(tw-1, 0, t)}
		case fs:
			return Sc{SExt(tw-fw, t)}
		default:
			return Sc{ZExt(tw-fw, t)}
		}
	}
	// string <-> []byte
	if isString(x.Type()) && isByteSlice(x.X.Type()) {
		b := v.(BSl)
		if b.Nil {
			return concStr("")
		}
		ba := s.load(b.Loc).(BA)
		if b.Len.IsConst() && b.Off.IsConst() {
			// try to produce a concrete string
			n := int(b.Len.Val.Int64())
			buf := make([]byte, n)
			conc := true
			for i := 0; i < n; i++ {
				t := Select(ba.A, Add(b.Off, Idx(i)))
				if !t.IsConst() {
					conc = false
					break
				}
				buf[i] = byte(t.Val.Uint64())
			}
			if conc {
				return concStr(string(buf))
			}
		}
		// snapshot rebased to offset 0
		arr := ba.A
		if !(b.Off.IsConst() && b.Off.Val.Sign() == 0) {
			arr = ZeroMem
			for i := 0; i < b.Max; i++ {
				arr = Store(arr, Idx(i), Select(ba.A, Add(b.Off, Idx(i))))
			}
		}
		return Str{Kind: 2, A: arr, Len: b.Len, Max: b.Max}
	}
	if isByteSlice(x.Type()) && isString(x.X.Type()) {
		st := v.(Str)
		a, ln, max, ok := st.asBytes()
		if !ok {
			panic(engErr("[]byte(atom string)"))
		}
		loc := Ptr{Obj: s.alloc(BA{A: a, N: -1})}
		return BSl{Loc: loc, Off: Idx(0), Len: ln, Cap: ln, Max: max}
	}
	if isString(x.Type()) && ok1 {
		t := v.(Sc).T
		if t.IsConst() {
			return concStr(string(rune(t.Val.Int64())))
		}
		panic(engErr("string(symbolic rune)"))
	}
	if b, ok := x.Type().Underlying().(*types.Basic); ok && b.Info()&types.IsFloat != 0 {
		return Opq{"float"}
	}
	if _, ok := x.Type().Underlying().(*types.Pointer); ok {
		return v
	}
	if b, ok := x.Type().Underlying().(*types.Basic); ok && b.Kind() == types.UnsafePointer {
		return v
	}
	panic(engErr(fmt.Sprintf("convert %s -> %s", x.X.Type(), x.Type())))
}

// ---- indexing ----

func to64(t *Term, sgn bool) *Term { return Resize(t, 64, sgn) }

func (e *Engine) idxTerm(f *Frame, v ssa.Value) *Term {
	t := e.val(f, v).(Sc).T
	_, sg, _ := intWidth(v.Type())
	return to64(t, sg)
}

func (e *Engine) indexAddr(s *State, f *Frame, x *ssa.IndexAddr) (forks []*State, stop bool) {
	base := e.val(f, x.X)
	idx := e.idxTerm(f, x.Index)
	where := e.site(x) + ": " + exprText(x.X) + "[" + exprText(x.Index) + "]"
	switch b := base.(type) {
	case BSl:
		bad := Not(Ult(idx, b.Len))
		if !e.oblige(s, bad, "index", where) {
			if !e.feasible(s, Not(bad)) {
				panic(abortPath{})
			}
		}
		e.addPC(s, Not(bad))
		f.Env[x] = BPtr{Loc: b.Loc, Idx: Add(b.Off, idx)}
		return nil, false
	case Ptr:
		if b.Nil {
			e.violation(s, "nil-deref", where)
			panic(abortPath{})
		}
		switch a := s.load(b).(type) {
		case BA:
			bad := Not(Ult(idx, Idx(a.N)))
			if !e.oblige(s, bad, "index", where) {
				if !e.feasible(s, Not(bad)) {
					panic(abortPath{})
				}
			}
			e.addPC(s, Not(bad))
			f.Env[x] = BPtr{Loc: b, Idx: idx}
			return nil, false
		case Ar:
			return e.indexFork(s, f, x, idx, len(a.E), where, func(i int) Value { return sub(b, i) })
		case Opq:
			f.Env[x] = a
			return nil, false
		default:
			panic(engErr(fmt.Sprintf("indexaddr into %T", a)))
		}
	case Sl:
		return e.indexFork(s, f, x, idx, b.Len, where, func(i int) Value { return Ptr{Obj: b.Obj, Path: []int{b.Off + i}} })
	case Opq:
		f.Env[x] = b
		return nil, false
	}
	panic(engErr(fmt.Sprintf("indexaddr of %T", base)))
}

// indexFork: bounds obligation, then case split on the concrete index.
func (e *Engine) indexFork(s *State, f *Frame, x ssa.Value, idx *Term, n int, where string, at func(i int) Value) (forks []*State, stop bool) {
	bad := Not(Ult(idx, Idx(n)))
	if !e.oblige(s, bad, "index", where) {
		if !e.feasible(s, Not(bad)) {
			panic(abortPath{})
		}
	}
	if idx.IsConst() {
		i := idx.Val.Int64()
		if idx.Val.Cmp(big.NewInt(int64(n))) >= 0 {
			panic(abortPath{})
		}
		f.Env[x] = at(int(i))
		return nil, false
	}
	e.addPC(s, Not(bad))
	var alts []alt
	for i := 0; i < n; i++ {
		i := i
		alts = append(alts, alt{Eq(idx, Idx(i)), func(ns *State, nf *Frame) { nf.Env[x] = at(i) }, ""})
	}
	if len(alts) == 0 {
		panic(abortPath{})
	}
	return e.forkOn(s, f, alts)
}

func (e *Engine) index(s *State, f *Frame, x *ssa.Index) (forks []*State, stop bool) {
	idx := e.idxTerm(f, x.Index)
	where := e.site(x) + ": " + exprText(x.X) + "[" + exprText(x.Index) + "]"
	switch a := e.val(f, x.X).(type) {
	case Ar:
		return e.indexFork(s, f, x, idx, len(a.E), where, func(i int) Value { return a.E[i] })
	case BA:
		bad := Not(Ult(idx, Idx(a.N)))
		if !e.oblige(s, bad, "index", where) {
			if !e.feasible(s, Not(bad)) {
				panic(abortPath{})
			}
		}
		e.addPC(s, Not(bad))
		f.Env[x] = Sc{Select(a.A, idx)}
		return nil, false
	case Str:
		arr, ln, _, ok := a.asBytes()
		if !ok {
			panic(engErr("index into atom string"))
		}
		bad := Not(Ult(idx, ln))
		if !e.oblige(s, bad, "index", where) {
			if !e.feasible(s, Not(bad)) {
				panic(abortPath{})
			}
		}
		e.addPC(s, Not(bad))
		f.Env[x] = Sc{Select(arr, idx)}
		return nil, false
	}
	panic(engErr(fmt.Sprintf("index of %T", e.val(f, x.X))))
}

func exprText(v ssa.Value) string {
	switch x := v.(type) {
	case *ssa.Const:
		return x.Value.String()
	case *ssa.Parameter:
		return x.Name()
	case *ssa.FieldAddr:
		st := x.X.Type().Underlying().(*types.Pointer).Elem().Underlying().(*types.Struct)
		return exprText(x.X) + "." + st.Field(x.Field).Name()
	case *ssa.Field:
		st := x.X.Type().Underlying().(*types.Struct)
		return exprText(x.X) + "." + st.Field(x.Field).Name()
	case *ssa.UnOp:
		if x.Op == token.MUL {
			return exprText(x.X)
		}
	case *ssa.Convert:
		return exprText(x.X)
	case *ssa.Call:
		if x.Call.IsInvoke() {
			return exprText(x.Call.Value) + "." + x.Call.Method.Name() + "()"
		}
		if fn, ok := x.Call.Value.(*ssa.Function); ok {
			return fn.Name() + "()"
		}
		if b, ok := x.Call.Value.(*ssa.Builtin); ok {
			if len(x.Call.Args) > 0 {
				return b.Name() + "(" + exprText(x.Call.Args[0]) + ")"
			}
		}
	case *ssa.Global:
		return x.Name()
	case *ssa.IndexAddr:
		return exprText(x.X) + "[" + exprText(x.Index) + "]"
	case *ssa.Phi:
		if x.Comment != "" {
			return x.Comment
		}
	case *ssa.Alloc:
		if x.Comment != "" {
			return x.Comment
		}
	case *ssa.BinOp:
		return exprText(x.X) + x.Op.String() + exprText(x.Y)
	case *ssa.Extract:
		return exprText(x.Tuple) + "#" + fmt.Sprint(x.Index)
	}
	return v.Name()
}

func (e *Engine) concretize(s *State, t *Term, what string) int {
	if t.IsConst() {
		return int(signed(t.Val, t.S.W).Int64())
	}
	r, vals := e.check(append([]*Term(nil), s.PC...), []*Term{t}, true)
	if r != "sat" || len(vals) != 1 {
		panic(abortPath{"cannot concretize " + what + ": " + r})
	}
	val := vals[0]
	r2, _ := e.check(append(append([]*Term(nil), s.PC...), Not(Eq(t, BV(val, t.S.W)))), nil, false)
	if r2 != "unsat" {
		panic(engErr(fmt.Sprintf("symbolic %s is not unique (harness must case-split)", what)))
	}
	return int(signed(val, t.S.W).Int64())
}

// upperBound finds a small B with PC => t <= B (unsigned), from a ladder; cap if none.
func (e *Engine) upperBound(s *State, t *Term, cap int) int {
	if t.IsConst() {
		if t.Val.IsInt64() && t.Val.Int64() <= int64(cap) {
			return int(t.Val.Int64())
		}
		return cap
	}
	ladder := []int{0, 1, 2, 4, 8, 16, 20, 32, 33, 48, 64, 65, 96, 128, 160, 192, 256, 320, 384, 512, 1024, 2048, 4096}
	lo, hi := 0, len(ladder)
	for i, b := range ladder {
		if b >= cap {
			hi = i
			break
		}
	}
	if hi == 0 {
		return cap
	}
	// binary search the smallest ladder entry that bounds t
	best := cap
	for lo < hi {
		mid := (lo + hi) / 2
		if !e.feasible(s, Ult(Idx(ladder[mid]), t)) {
			best = ladder[mid]
			hi = mid
		} else {
			lo = mid + 1
		}
	}
	return best
}

func (e *Engine) slice(s *State, f *Frame, x *ssa.Slice) (forks []*State, stop bool) {
	base := e.val(f, x.X)
	where := e.site(x) + ": " + exprText(x.X) + "[" + sliceArg(x.Low) + ":" + sliceArg(x.High) + "]"
	// byte-backed cases
	var bloc Ptr
	var boff, blen, bcap *Term
	bmax := 0
	isB := false
	switch b := base.(type) {
	case BSl:
		if b.Nil {
			// slicing a nil slice: only [0:0] is legal
			b.Loc = Ptr{Obj: s.alloc(BA{A: ZeroMem, N: -1})}
		}
		bloc, boff, blen, bcap, bmax, isB = b.Loc, b.Off, b.Len, b.Cap, b.Max, true
	case Ptr:
		if b.Nil {
			e.violation(s, "nil-deref", where)
			panic(abortPath{})
		}
		if ba, ok := s.load(b).(BA); ok {
			bloc, boff, blen, bcap, bmax, isB = b, Idx(0), Idx(ba.N), Idx(ba.N), ba.N, true
		}
	case Str:
		arr, ln, max, ok := b.asBytes()
		if !ok {
			panic(engErr("slice of atom string"))
		}
		lo, hi := Idx(0), ln
		if x.Low != nil {
			lo = e.idxTerm(f, x.Low)
		}
		if x.High != nil {
			hi = e.idxTerm(f, x.High)
		}
		bad := Or(Ult(hi, lo), Ult(ln, hi))
		if !e.oblige(s, bad, "slice", where) {
			if !e.feasible(s, Not(bad)) {
				panic(abortPath{})
			}
		}
		e.addPC(s, Not(bad))
		if b.Kind == 0 && lo.IsConst() && hi.IsConst() {
			f.Env[x] = concStr(b.Conc[lo.Val.Int64():hi.Val.Int64()])
			return nil, false
		}
		na := ZeroMem
		for i := 0; i < max; i++ {
			na = Store(na, Idx(i), Select(arr, Add(lo, Idx(i))))
		}
		f.Env[x] = Str{Kind: 2, A: na, Len: Sub(hi, lo), Max: max}
		return nil, false
	case Opq:
		f.Env[x] = b
		return nil, false
	}
	if isB {
		lo, hi, mx := Idx(0), blen, bcap
		if x.Low != nil {
			lo = e.idxTerm(f, x.Low)
		}
		if x.High != nil {
			hi = e.idxTerm(f, x.High)
		}
		if x.Max != nil {
			mx = e.idxTerm(f, x.Max)
		}
		bad := Or(Ult(hi, lo), Ult(mx, hi), Ult(bcap, mx))
		if !e.oblige(s, bad, "slice", where) {
			if !e.feasible(s, Not(bad)) {
				panic(abortPath{})
			}
		}
		e.addPC(s, Not(bad))
		nl := Sub(hi, lo)
		nm := bmax
		if x.High != nil || x.Low != nil {
			capMax := bmax
			if bcap.IsConst() && bcap.Val.IsInt64() {
				capMax = int(bcap.Val.Int64())
			}
			if !nl.IsConst() {
				nm = e.upperBound(s, nl, capMax)
			} else {
				nm = int(nl.Val.Int64())
			}
		}
		f.Env[x] = BSl{Loc: bloc, Off: Add(boff, lo), Len: nl, Cap: Sub(mx, lo), Max: nm}
		return nil, false
	}
	var obj, off, ln, cp int
	switch b := base.(type) {
	case Ptr: // *array
		a, ok := s.load(b).(Ar)
		if !ok {
			panic(engErr(fmt.Sprintf("slice of pointer to %T", s.load(b))))
		}
		if len(b.Path) != 0 {
			// copy semantics would be wrong; allocate alias object is not possible
			panic(engErr("slice of nested array"))
		}
		obj, off, ln, cp = b.Obj, 0, len(a.E), len(a.E)
	case Sl:
		if b.Nil {
			f.Env[x] = b
			return nil, false
		}
		obj, off, ln, cp = b.Obj, b.Off, b.Len, b.Cap
	default:
		panic(engErr(fmt.Sprintf("slice of %T", base)))
	}
	lo, hi, mx := 0, ln, cp
	loT, hiT := Idx(0), Idx(ln)
	if x.Low != nil {
		loT = e.idxTerm(f, x.Low)
	}
	if x.High != nil {
		hiT = e.idxTerm(f, x.High)
	}
	bad := Or(Ult(hiT, loT), Ult(Idx(cp), hiT))
	if !e.oblige(s, bad, "slice", where) {
		if !e.feasible(s, Not(bad)) {
			panic(abortPath{})
		}
	}
	e.addPC(s, Not(bad))
	if !loT.IsConst() || !hiT.IsConst() {
		// case split on (lo,hi)
		var alts []alt
		for l := 0; l <= cp; l++ {
			for h := l; h <= cp; h++ {
				l, h := l, h
				alts = append(alts, alt{And(Eq(loT, Idx(l)), Eq(hiT, Idx(h))), func(ns *State, nf *Frame) {
					nf.Env[x] = Sl{Obj: obj, Off: off + l, Len: h - l, Cap: cp - l}
				}, ""})
			}
		}
		return e.forkOn(s, f, alts)
	}
	lo, hi = int(loT.Val.Int64()), int(hiT.Val.Int64())
	if x.Max != nil {
		mx = e.concretize(s, e.idxTerm(f, x.Max), "slice max")
	}
	if lo < 0 || hi < lo || hi > mx || mx > cp {
		panic(abortPath{})
	}
	f.Env[x] = Sl{Obj: obj, Off: off + lo, Len: hi - lo, Cap: mx - lo}
	return nil, false
}

func sliceArg(v ssa.Value) string {
	if v == nil {
		return ""
	}
	return exprText(v)
}

func (e *Engine) makeSlice(s *State, f *Frame, x *ssa.MakeSlice) (forks []*State, stop bool) {
	el := x.Type().Underlying().(*types.Slice).Elem()
	n := e.idxTerm(f, x.Len)
	c := e.idxTerm(f, x.Cap)
	where := e.site(x) + ": make(" + types.TypeString(x.Type(), func(p *types.Package) string { return p.Name() }) + ", " + exprText(x.Len) + ")"
	neg := Or(Slt(n, Idx(0)), Slt(c, n))
	if !e.oblige(s, neg, "panic", where+" negative length") {
		if !e.feasible(s, Not(neg)) {
			panic(abortPath{})
		}
	}
	e.addPC(s, Not(neg))
	big := Ult(BVu(uint64(s.Alloc), 64), c)
	if !e.oblige(s, big, "alloc", where) {
		if !e.feasible(s, Not(big)) {
			panic(abortPath{})
		}
	}
	e.addPC(s, Not(big))
	if isByte(el) {
		mx := e.upperBound(s, n, int(s.Alloc))
		loc := Ptr{Obj: s.alloc(BA{A: ZeroMem, N: -1})}
		f.Env[x] = BSl{Loc: loc, Off: Idx(0), Len: n, Cap: c, Max: mx}
		return nil, false
	}
	mk := func(ns *State, nf *Frame, ln, cp int) {
		ar := Ar{make([]Value, cp)}
		for i := range ar.E {
			ar.E[i] = zero(el)
		}
		nf.Env[x] = Sl{Obj: ns.alloc(ar), Len: ln, Cap: cp}
	}
	if n.IsConst() && c.IsConst() {
		mk(s, f, int(n.Val.Int64()), int(c.Val.Int64()))
		return nil, false
	}
	ub := e.upperBound(s, c, 64)
	if ub >= 64 {
		panic(engErr("symbolic make of non-byte slice without small bound at " + where))
	}
	var alts []alt
	for cp := 0; cp <= ub; cp++ {
		for ln := 0; ln <= cp; ln++ {
			ln, cp := ln, cp
			alts = append(alts, alt{And(Eq(n, Idx(ln)), Eq(c, Idx(cp))), func(ns *State, nf *Frame) { mk(ns, nf, ln, cp) }, ""})
		}
	}
	return e.forkOn(s, f, alts)
}

// ---- type assertions ----

func (e *Engine) implements(dyn types.Type, iface *types.Interface) bool {
	return types.Implements(dyn, iface)
}

func (e *Engine) typeAssert(s *State, f *Frame, x *ssa.TypeAssert) (forks []*State, stop bool) {
	v := e.val(f, x.X)
	if o, ok := v.(Opq); ok {
		if x.CommaOk {
			f.Env[x] = Tu{[]Value{o, Sc{e.freshBool(s, "opaque-typeassert")}}}
		} else {
			f.Env[x] = o
		}
		return nil, false
	}
	iv := v.(If)
	ok := false
	var res Value
	if iv.T != nil {
		if it, isI := x.AssertedType.Underlying().(*types.Interface); isI {
			if iv.T == errType {
				ok = types.Identical(x.AssertedType, types.Universe.Lookup("error").Type()) || it.NumMethods() == 0
			} else {
				ok = e.implements(iv.T, it)
			}
			res = iv
		} else {
			ok = types.Identical(iv.T, x.AssertedType)
			res = iv.V
		}
	}
	if x.CommaOk {
		if !ok {
			res = zero(x.AssertedType)
		}
		f.Env[x] = Tu{[]Value{res, Sc{Bool(ok)}}}
		return nil, false
	}
	if !ok {
		e.violation(s, "typeassert", e.site(x)+": "+exprText(x.X)+".("+types.TypeString(x.AssertedType, func(p *types.Package) string { return p.Name() })+")")
		panic(abortPath{})
	}
	f.Env[x] = res
	return nil, false
}

func (e *Engine) freshBool(s *State, name string) *Term {
	return e.freshVar(s, name, BoolS)
}

func (e *Engine) freshVar(s *State, name string, so Sort) *Term {
	k := s.Names[name]
	s.Names[name] = k + 1
	full := fmt.Sprintf("%s#%d", name, k)
	v := Var(full, so)
	if so.K != 2 {
		s.Extra = append(s.Extra, v)
		s.ExtraTag = append(s.ExtraTag, "v:"+full)
	}
	return v
}

// ---- select (channels) ----

func (e *Engine) selectStmt(s *State, f *Frame, x *ssa.Select) (forks []*State, stop bool) {
	// tuple: (index int, recvOk bool, r_0 T_0, ... r_n-1 T_n-1)
	type choice struct {
		idx int
		v   Value
	}
	var ready []choice
	for i, st := range x.States {
		chv := e.val(f, st.Chan)
		ch, ok := chv.(Ch)
		if !ok || ch.Nil {
			continue
		}
		cd := s.Objs[ch.Obj].(*ChanData)
		if st.Dir == types.SendOnly {
			ready = append(ready, choice{i, nil})
		} else if len(cd.Q) > 0 {
			ready = append(ready, choice{i, cd.Q[0]})
		}
	}
	build := func(ns *State, nf *Frame, c choice) {
		t := Tu{E: []Value{Sc{BVi(int64(c.idx), 64)}, Sc{True}}}
		for i, st := range x.States {
			if st.Dir == types.RecvOnly {
				var rv Value
				if i == c.idx {
					rv = c.v
				} else {
					rv = zero(st.Chan.Type().Underlying().(*types.Chan).Elem())
				}
				t.E = append(t.E, rv)
			}
		}
		if c.idx >= 0 {
			st := x.States[c.idx]
			ch := e.val(nf, st.Chan).(Ch)
			cd := ns.Objs[ch.Obj].(*ChanData)
			if st.Dir == types.SendOnly {
				ns.Objs[ch.Obj] = &ChanData{Q: append(append([]Value(nil), cd.Q...), e.val(nf, st.Send))}
			} else {
				ns.Objs[ch.Obj] = &ChanData{Q: append([]Value(nil), cd.Q[1:]...)}
			}
		}
		nf.Env[x] = t
	}
	if len(ready) == 0 {
		if !x.Blocking {
			build(s, f, choice{-1, nil})
			return nil, false
		}
		panic(abortPath{}) // blocks forever
	}
	var alts []alt
	for _, c := range ready {
		c := c
		alts = append(alts, alt{True, func(ns *State, nf *Frame) { build(ns, nf, c) }, fmt.Sprintf("select:%d", c.idx)})
	}
	return e.forkOn(s, f, alts)
}

func sortedKeys(m map[string]bool) []string {
	var ks []string
	for k := range m {
		ks = append(ks, k)
	}
	sort.Strings(ks)
	return ks
}

// wellKnownGlobal gives the value of a few dependency globals whose package init is not executed.
func wellKnownGlobal(st *State, x *ssa.Global) (Value, bool) {
	mkBig := func(n uint64) Value { return Ptr{Obj: st.alloc(Big{Neg: False, Mag: BVu(n, bigW)})} }
	switch x.String() {
	case "encoding/base64.RawURLEncoding", "encoding/base64.StdEncoding", "encoding/base64.URLEncoding", "encoding/base64.RawStdEncoding":
		return Opq{"base64 encoding"}, true
	case "github.com/libp2p/go-libp2p-pubsub.GossipSubDlo":
		return Sc{BVu(5, 64)}, true // library defaults (only used for connection-manager water marks)
	case "github.com/libp2p/go-libp2p-pubsub.GossipSubDhi":
		return Sc{BVu(12, 64)}, true
	case "crypto/rand.Reader":
		return Opq{"crypto/rand.Reader"}, true // only ever handed on to (stubbed) crypto functions
	case "github.com/ethereum/go-ethereum/common.Big0":
		return mkBig(0), true
	case "github.com/ethereum/go-ethereum/common.Big1":
		return mkBig(1), true
	case "github.com/ethereum/go-ethereum/common.Big2":
		return mkBig(2), true
	case "github.com/ethereum/go-ethereum/common.Big3":
		return mkBig(3), true
	case "github.com/ethereum/go-ethereum/common.Big32":
		return mkBig(32), true
	case "github.com/ethereum/go-ethereum/common.Big256":
		return mkBig(256), true
	}
	return nil, false
}

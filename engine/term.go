package main

// SMT terms: hash-consed, simplified on construction, printed as SMT-LIB2 with sharing.

import (
	"fmt"
	"math/big"
	"sort"
	"strings"
	"sync"
)

type Sort struct {
	K int // 0 bool, 1 bv, 2 array bv64->bv8
	W int
}

var BoolS = Sort{K: 0}

func BVS(w int) Sort { return Sort{K: 1, W: w} }

var MemS = Sort{K: 2}

func (s Sort) String() string {
	switch s.K {
	case 0:
		return "Bool"
	case 1:
		return fmt.Sprintf("(_ BitVec %d)", s.W)
	}
	return "(Array (_ BitVec 64) (_ BitVec 8))"
}

type Term struct {
	Op   string
	Args []*Term
	S    Sort
	Val  *big.Int // const
	Name string   // var / uf name
	A, B int      // extract hi/lo, zext/sext amount
	id   int
}

var (
	pool   = map[string]*Term{}
	poolMu sync.Mutex
	nextID = 1
)

func mk(t *Term) *Term {
	var sb strings.Builder
	sb.WriteString(t.Op)
	sb.WriteByte('|')
	fmt.Fprintf(&sb, "%d.%d|", t.S.K, t.S.W)
	if t.Val != nil {
		sb.WriteString(t.Val.Text(16))
	}
	sb.WriteByte('|')
	sb.WriteString(t.Name)
	fmt.Fprintf(&sb, "|%d|%d", t.A, t.B)
	for _, a := range t.Args {
		fmt.Fprintf(&sb, ",%d", a.id)
	}
	k := sb.String()
	poolMu.Lock()
	defer poolMu.Unlock()
	if x, ok := pool[k]; ok {
		return x
	}
	t.id = nextID
	nextID++
	pool[k] = t
	return t
}

func (t *Term) IsConst() bool { return t.Op == "const" }

func mask(w int) *big.Int {
	return new(big.Int).Sub(new(big.Int).Lsh(big.NewInt(1), uint(w)), big.NewInt(1))
}

func BV(v *big.Int, w int) *Term {
	x := new(big.Int).And(v, mask(w))
	return mk(&Term{Op: "const", S: BVS(w), Val: x})
}
func BVu(v uint64, w int) *Term { return BV(new(big.Int).SetUint64(v), w) }
func BVi(v int64, w int) *Term  { return BV(big.NewInt(v), w) }

var True = mk(&Term{Op: "const", S: BoolS, Val: big.NewInt(1)})
var False = mk(&Term{Op: "const", S: BoolS, Val: big.NewInt(0)})

func Bool(b bool) *Term {
	if b {
		return True
	}
	return False
}
func Var(name string, s Sort) *Term { return mk(&Term{Op: "var", S: s, Name: name}) }

// App is an application of an uninterpreted function; the function symbol is name
// (the caller makes the name unique per signature).
func App(name string, ret Sort, args ...*Term) *Term {
	return mk(&Term{Op: "app", S: ret, Name: name, Args: args})
}

func Not(a *Term) *Term {
	if a == True {
		return False
	}
	if a == False {
		return True
	}
	if a.Op == "not" {
		return a.Args[0]
	}
	return mk(&Term{Op: "not", S: BoolS, Args: []*Term{a}})
}
func And(xs ...*Term) *Term {
	var out []*Term
	seen := map[int]bool{}
	for _, x := range xs {
		if x == False {
			return False
		}
		if x == True {
			continue
		}
		if x.Op == "and" {
			for _, y := range x.Args {
				if !seen[y.id] {
					seen[y.id] = true
					out = append(out, y)
				}
			}
			continue
		}
		if seen[x.id] {
			continue
		}
		seen[x.id] = true
		out = append(out, x)
	}
	for _, x := range out {
		if x.Op == "not" && seen[x.Args[0].id] {
			return False
		}
	}
	if len(out) == 0 {
		return True
	}
	if len(out) == 1 {
		return out[0]
	}
	return mk(&Term{Op: "and", S: BoolS, Args: out})
}
func Or(xs ...*Term) *Term {
	var out []*Term
	seen := map[int]bool{}
	for _, x := range xs {
		if x == True {
			return True
		}
		if x == False {
			continue
		}
		if x.Op == "or" {
			for _, y := range x.Args {
				if !seen[y.id] {
					seen[y.id] = true
					out = append(out, y)
				}
			}
			continue
		}
		if seen[x.id] {
			continue
		}
		seen[x.id] = true
		out = append(out, x)
	}
	for _, x := range out {
		if x.Op == "not" && seen[x.Args[0].id] {
			return True
		}
	}
	if len(out) == 0 {
		return False
	}
	if len(out) == 1 {
		return out[0]
	}
	return mk(&Term{Op: "or", S: BoolS, Args: out})
}
func Implies(a, b *Term) *Term { return Or(Not(a), b) }

func Ite(c, a, b *Term) *Term {
	if c == True {
		return a
	}
	if c == False {
		return b
	}
	if a == b {
		return a
	}
	if a.S.K == 0 {
		if a == True && b == False {
			return c
		}
		if a == False && b == True {
			return Not(c)
		}
		if a == True {
			return Or(c, b)
		}
		if a == False {
			return And(Not(c), b)
		}
		if b == True {
			return Or(Not(c), a)
		}
		if b == False {
			return And(c, a)
		}
	}
	if c.Op == "not" {
		return Ite(c.Args[0], b, a)
	}
	// ite(c, x, ite(c, y, z)) = ite(c, x, z)
	if b.Op == "ite" && b.Args[0] == c {
		return Ite(c, a, b.Args[2])
	}
	if a.Op == "ite" && a.Args[0] == c {
		return Ite(c, a.Args[1], b)
	}
	return mk(&Term{Op: "ite", S: a.S, Args: []*Term{c, a, b}})
}
func Eq(a, b *Term) *Term {
	if a == b {
		return True
	}
	if a.S != b.S {
		panic(fmt.Sprintf("Eq sort mismatch %v %v (%s, %s)", a.S, b.S, a.Op, b.Op))
	}
	if a.IsConst() && b.IsConst() {
		return Bool(a.Val.Cmp(b.Val) == 0)
	}
	if a.S.K == 0 {
		if b == True {
			return a
		}
		if b == False {
			return Not(a)
		}
		if a == True {
			return b
		}
		if a == False {
			return Not(b)
		}
	}
	if a.S.K == 1 {
		// (x + c1) == c2  ->  x == c2-c1
		if b.IsConst() && a.Op == "bvadd" && a.Args[1].IsConst() {
			return Eq(a.Args[0], BV(new(big.Int).Sub(b.Val, a.Args[1].Val), a.S.W))
		}
		if a.IsConst() && b.Op == "bvadd" && b.Args[1].IsConst() {
			return Eq(b.Args[0], BV(new(big.Int).Sub(a.Val, b.Args[1].Val), a.S.W))
		}
		// ite-tree of constants == k
		if b.IsConst() && a.Op == "ite" && constTree(a, 6) {
			return Ite(a.Args[0], Eq(a.Args[1], b), Eq(a.Args[2], b))
		}
		if a.IsConst() && b.Op == "ite" && constTree(b, 6) {
			return Ite(b.Args[0], Eq(b.Args[1], a), Eq(b.Args[2], a))
		}
		// zero_extend(x) == const
		if b.IsConst() && a.Op == "zero_extend" {
			iw := a.Args[0].S.W
			if b.Val.BitLen() > iw {
				return False
			}
			return Eq(a.Args[0], BV(b.Val, iw))
		}
	}
	if a.id > b.id {
		a, b = b, a
	}
	return mk(&Term{Op: "=", S: BoolS, Args: []*Term{a, b}})
}

// constTree: t is a constant or an ite whose leaves are constants (depth-limited).
func constTree(t *Term, depth int) bool {
	if t.IsConst() {
		return true
	}
	if t.Op != "ite" || depth == 0 {
		return false
	}
	return constTree(t.Args[1], depth-1) && constTree(t.Args[2], depth-1)
}

func signed(v *big.Int, w int) *big.Int {
	if v.Bit(w-1) == 1 {
		return new(big.Int).Sub(v, new(big.Int).Lsh(big.NewInt(1), uint(w)))
	}
	return v
}

// BinBV builds a bit-vector binary op with constant folding and a few identities.
func BinBV(op string, a, b *Term) *Term {
	w := a.S.W
	if a.S != b.S {
		panic(fmt.Sprintf("BinBV %s sort mismatch %v %v", op, a.S, b.S))
	}
	if a.IsConst() && b.IsConst() {
		x, y := a.Val, b.Val
		r := new(big.Int)
		switch op {
		case "bvadd":
			r.Add(x, y)
		case "bvsub":
			r.Sub(x, y)
		case "bvmul":
			r.Mul(x, y)
		case "bvand":
			r.And(x, y)
		case "bvor":
			r.Or(x, y)
		case "bvxor":
			r.Xor(x, y)
		case "bvudiv":
			if y.Sign() == 0 {
				r = mask(w)
			} else {
				r.Div(x, y)
			}
		case "bvurem":
			if y.Sign() == 0 {
				r.Set(x)
			} else {
				r.Mod(x, y)
			}
		case "bvshl":
			if y.Cmp(big.NewInt(int64(w))) >= 0 {
				r.SetInt64(0)
			} else {
				r.Lsh(x, uint(y.Uint64()))
			}
		case "bvlshr":
			if y.Cmp(big.NewInt(int64(w))) >= 0 {
				r.SetInt64(0)
			} else {
				r.Rsh(x, uint(y.Uint64()))
			}
		case "bvsdiv", "bvsrem", "bvashr":
			sx, sy := signed(x, w), signed(y, w)
			switch op {
			case "bvsdiv":
				if sy.Sign() == 0 {
					goto nofold
				}
				r.Quo(sx, sy)
			case "bvsrem":
				if sy.Sign() == 0 {
					goto nofold
				}
				r.Rem(sx, sy)
			case "bvashr":
				sh := uint(w)
				if y.Cmp(big.NewInt(int64(w))) < 0 {
					sh = uint(y.Uint64())
				}
				r.Rsh(sx, sh)
			}
		default:
			goto nofold
		}
		return BV(r, w)
	}
nofold:
	zero := func(t *Term) bool { return t.IsConst() && t.Val.Sign() == 0 }
	switch op {
	case "bvadd":
		if zero(a) {
			return b
		}
		if zero(b) {
			return a
		}
		if a.IsConst() { // const on the right
			a, b = b, a
		}
		// (x + c1) + c2
		if b.IsConst() && a.Op == "bvadd" && a.Args[1].IsConst() {
			return BinBV("bvadd", a.Args[0], BinBV("bvadd", a.Args[1], b))
		}
		// (x + c1) + y  ->  (x + y) + c1
		if !b.IsConst() && a.Op == "bvadd" && a.Args[1].IsConst() {
			return BinBV("bvadd", BinBV("bvadd", a.Args[0], b), a.Args[1])
		}
		if !a.IsConst() && b.Op == "bvadd" && b.Args[1].IsConst() {
			return BinBV("bvadd", BinBV("bvadd", a, b.Args[0]), b.Args[1])
		}
		if b.IsConst() && a.Op == "ite" && a.Args[1].IsConst() && a.Args[2].IsConst() {
			return Ite(a.Args[0], BinBV("bvadd", a.Args[1], b), BinBV("bvadd", a.Args[2], b))
		}
	case "bvsub":
		if zero(b) {
			return a
		}
		if a == b {
			return BVu(0, w)
		}
		if b.IsConst() {
			return BinBV("bvadd", a, BV(new(big.Int).Neg(b.Val), w))
		}
		// (x + c) - x = c
		if a.Op == "bvadd" && a.Args[0] == b {
			return a.Args[1]
		}
		// (x + c1) - (x + c2)
		if a.Op == "bvadd" && b.Op == "bvadd" && a.Args[0] == b.Args[0] && a.Args[1].IsConst() && b.Args[1].IsConst() {
			return BinBV("bvsub", a.Args[1], b.Args[1])
		}
		// x - (x + c) = -c
		if b.Op == "bvadd" && b.Args[0] == a && b.Args[1].IsConst() {
			return BV(new(big.Int).Neg(b.Args[1].Val), w)
		}
	case "bvmul":
		if zero(a) || zero(b) {
			return BVu(0, w)
		}
		if a.IsConst() && a.Val.Cmp(big.NewInt(1)) == 0 {
			return b
		}
		if b.IsConst() && b.Val.Cmp(big.NewInt(1)) == 0 {
			return a
		}
		if a.IsConst() {
			a, b = b, a
		}
	case "bvand":
		if zero(a) || zero(b) {
			return BVu(0, w)
		}
		if a == b {
			return a
		}
	case "bvor":
		if zero(a) {
			return b
		}
		if zero(b) {
			return a
		}
		if a == b {
			return a
		}
	case "bvshl", "bvlshr":
		if zero(b) {
			return a
		}
		if zero(a) {
			return a
		}
	}
	return mk(&Term{Op: op, S: BVS(w), Args: []*Term{a, b}})
}

func CmpBV(op string, a, b *Term) *Term { // bvult bvule bvslt bvsle
	if a.S != b.S {
		panic(fmt.Sprintf("CmpBV %s sort mismatch %v %v", op, a.S, b.S))
	}
	if a.IsConst() && b.IsConst() {
		x, y := a.Val, b.Val
		if op == "bvslt" || op == "bvsle" {
			x, y = signed(x, a.S.W), signed(y, a.S.W)
		}
		c := x.Cmp(y)
		switch op {
		case "bvult", "bvslt":
			return Bool(c < 0)
		default:
			return Bool(c <= 0)
		}
	}
	if a == b {
		return Bool(op == "bvule" || op == "bvsle")
	}
	if op == "bvult" && b.IsConst() && b.Val.Sign() == 0 {
		return False
	}
	if op == "bvule" && a.IsConst() && a.Val.Sign() == 0 {
		return True
	}
	// ite-tree of constants cmp k: push the comparison to the leaves
	if b.IsConst() && a.Op == "ite" && constTree(a, 6) {
		return Ite(a.Args[0], CmpBV(op, a.Args[1], b), CmpBV(op, a.Args[2], b))
	}
	if a.IsConst() && b.Op == "ite" && constTree(b, 6) {
		return Ite(b.Args[0], CmpBV(op, a, b.Args[1]), CmpBV(op, a, b.Args[2]))
	}
	return mk(&Term{Op: op, S: BoolS, Args: []*Term{a, b}})
}

func Ult(a, b *Term) *Term { return CmpBV("bvult", a, b) }
func Ule(a, b *Term) *Term { return CmpBV("bvule", a, b) }
func Slt(a, b *Term) *Term { return CmpBV("bvslt", a, b) }
func Sle(a, b *Term) *Term { return CmpBV("bvsle", a, b) }
func Add(a, b *Term) *Term { return BinBV("bvadd", a, b) }
func Sub(a, b *Term) *Term { return BinBV("bvsub", a, b) }

func Extract(hi, lo int, a *Term) *Term {
	if lo == 0 && hi == a.S.W-1 {
		return a
	}
	if a.IsConst() {
		return BV(new(big.Int).Rsh(a.Val, uint(lo)), hi-lo+1)
	}
	if a.Op == "zero_extend" {
		iw := a.Args[0].S.W
		if hi < iw {
			return Extract(hi, lo, a.Args[0])
		}
		if lo >= iw {
			return BVu(0, hi-lo+1)
		}
	}
	if a.Op == "concat" {
		lw := a.Args[1].S.W
		if hi < lw {
			return Extract(hi, lo, a.Args[1])
		}
		if lo >= lw {
			return Extract(hi-lw, lo-lw, a.Args[0])
		}
	}
	if a.Op == "extract" {
		return Extract(hi+a.B, lo+a.B, a.Args[0])
	}
	return mk(&Term{Op: "extract", S: BVS(hi - lo + 1), Args: []*Term{a}, A: hi, B: lo})
}
func ZExt(n int, a *Term) *Term {
	if n == 0 {
		return a
	}
	if a.IsConst() {
		return BV(a.Val, a.S.W+n)
	}
	if a.Op == "zero_extend" {
		return ZExt(n+a.A, a.Args[0])
	}
	return mk(&Term{Op: "zero_extend", S: BVS(a.S.W + n), Args: []*Term{a}, A: n})
}
func SExt(n int, a *Term) *Term {
	if n == 0 {
		return a
	}
	if a.IsConst() {
		return BV(signed(a.Val, a.S.W), a.S.W+n)
	}
	return mk(&Term{Op: "sign_extend", S: BVS(a.S.W + n), Args: []*Term{a}, A: n})
}
func Concat(a, b *Term) *Term {
	if a.IsConst() && b.IsConst() {
		return BV(new(big.Int).Or(new(big.Int).Lsh(a.Val, uint(b.S.W)), b.Val), a.S.W+b.S.W)
	}
	// concat(extract(h,m+1,x), extract(m,l,x)) = extract(h,l,x)
	if a.Op == "extract" && b.Op == "extract" && a.Args[0] == b.Args[0] && a.B == b.A+1 {
		return Extract(a.A, b.B, a.Args[0])
	}
	// concat(concat(p, extract(h,m+1,x)), extract(m,l,x)) = concat(p, extract(h,l,x))
	if a.Op == "concat" && b.Op == "extract" {
		q := a.Args[1]
		if q.Op == "extract" && q.Args[0] == b.Args[0] && q.B == b.A+1 {
			return Concat(a.Args[0], Extract(q.A, b.B, q.Args[0]))
		}
		if q.IsConst() && b.IsConst() {
			return Concat(a.Args[0], Concat(q, b))
		}
	}
	if a.Op == "concat" && b.IsConst() && a.Args[1].IsConst() {
		return Concat(a.Args[0], Concat(a.Args[1], b))
	}
	return mk(&Term{Op: "concat", S: BVS(a.S.W + b.S.W), Args: []*Term{a, b}})
}

// resize to width w, zero- or sign-extending
func Resize(a *Term, w int, sgn bool) *Term {
	switch {
	case a.S.W == w:
		return a
	case a.S.W > w:
		return Extract(w-1, 0, a)
	case sgn:
		return SExt(w-a.S.W, a)
	}
	return ZExt(w-a.S.W, a)
}

// splitIdx splits an index term into base + const offset.
func splitIdx(i *Term) (*Term, *big.Int) {
	if i.IsConst() {
		return nil, i.Val
	}
	if i.Op == "bvadd" && i.Args[1].IsConst() {
		return i.Args[0], i.Args[1].Val
	}
	return i, big.NewInt(0)
}

// distinctIdx reports whether two index terms are syntactically known to differ.
func distinctIdx(a, b *Term) bool {
	ba, ca := splitIdx(a)
	bb, cb := splitIdx(b)
	return ba == bb && ca.Cmp(cb) != 0
}

// BVArr is an array whose first n bytes are the bytes of the wide bit-vector w (big endian:
// index 0 is the most significant byte) and zero elsewhere. Fixed-size byte strings
// (addresses, hashes, keys) are kept in this form so that equality and ordering are single
// wide bit-vector atoms instead of per-byte array reads.
func BVArr(w *Term, n int) *Term {
	if w.S.W != 8*n {
		panic("BVArr width")
	}
	return mk(&Term{Op: "bvarr", S: MemS, Args: []*Term{w}, A: n})
}

func bvarrByte(w *Term, n, i int) *Term { return Extract(8*(n-i)-1, 8*(n-i-1), w) }

// Select pushes reads through stores and array-valued ites, so that formulas contain reads of
// array variables only (no store terms): solvers then treat arrays like uninterpreted functions.
func Select(m, i *Term) *Term {
	for {
		switch m.Op {
		case "store":
			if m.Args[1] == i {
				return m.Args[2]
			}
			if distinctIdx(m.Args[1], i) {
				m = m.Args[0]
				continue
			}
			return Ite(Eq(m.Args[1], i), m.Args[2], Select(m.Args[0], i))
		case "constarr":
			return m.Args[0]
		case "ite":
			return Ite(m.Args[0], Select(m.Args[1], i), Select(m.Args[2], i))
		case "bvarr":
			n := m.A
			w := m.Args[0]
			if i.IsConst() {
				if i.Val.IsInt64() && i.Val.Int64() < int64(n) {
					return bvarrByte(w, n, int(i.Val.Int64()))
				}
				return BVu(0, 8)
			}
			// symbolic index: case split over the n positions
			r := BVu(0, 8)
			for k := n - 1; k >= 0; k-- {
				r = Ite(Eq(i, Idx(k)), bvarrByte(w, n, k), r)
			}
			return r
		}
		break
	}
	return mk(&Term{Op: "select", S: BVS(8), Args: []*Term{m, i}})
}
func Store(m, i, v *Term) *Term {
	// overwrite of the same index
	if m.Op == "store" && m.Args[1] == i {
		m = m.Args[0]
	}
	// store(m, i, select(m, i)) = m
	if v.Op == "select" && v.Args[0] == m && v.Args[1] == i {
		return m
	}
	if m.Op == "bvarr" && i.IsConst() && i.Val.IsInt64() && i.Val.Int64() < int64(m.A) {
		n, k, w := m.A, int(i.Val.Int64()), m.Args[0]
		nw := v
		if k > 0 {
			nw = Concat(Extract(8*n-1, 8*(n-k), w), nw)
		}
		if k < n-1 {
			nw = Concat(nw, Extract(8*(n-k-1)-1, 0, w))
		}
		return BVArr(nw, n)
	}
	return mk(&Term{Op: "store", S: MemS, Args: []*Term{m, i, v}})
}

// WordOf packs n bytes of array a starting at offset o into one bit-vector (big endian).
func WordOf(a, o *Term, n int) *Term {
	if n == 0 {
		return nil
	}
	if a.Op == "ite" {
		return Ite(a.Args[0], WordOf(a.Args[1], o, n), WordOf(a.Args[2], o, n))
	}
	if a.Op == "bvarr" && o.IsConst() && o.Val.IsInt64() {
		k := int(o.Val.Int64())
		if k+n <= a.A {
			return Extract(8*(a.A-k)-1, 8*(a.A-k-n), a.Args[0])
		}
	}
	var t *Term
	for i := 0; i < n; i++ {
		x := Select(a, Add(o, Idx(i)))
		if t == nil {
			t = x
		} else {
			t = Concat(t, x)
		}
	}
	return t
}
func ConstArr(v *Term) *Term { return mk(&Term{Op: "constarr", S: MemS, Args: []*Term{v}}) }

var ZeroMem = ConstArr(BVu(0, 8))

func Idx(i int) *Term { return BVu(uint64(i), 64) }

// ---- printing with sharing ----

type printer struct {
	sb    strings.Builder
	done  map[int]bool
	vars  map[string]Sort
	ufs   map[string]string
	count map[int]int
}

func (p *printer) refcount(t *Term) {
	p.count[t.id]++
	if p.count[t.id] > 1 {
		return
	}
	for _, a := range t.Args {
		p.refcount(a)
	}
}

func quote(n string) string { return "|" + n + "|" }

func constStr(t *Term) string {
	if t.S.K == 0 {
		if t.Val.Sign() != 0 {
			return "true"
		}
		return "false"
	}
	if t.S.W%4 == 0 {
		return fmt.Sprintf("#x%0*s", t.S.W/4, t.Val.Text(16))
	}
	return fmt.Sprintf("#b%0*s", t.S.W, t.Val.Text(2))
}

func (p *printer) ref(t *Term) string {
	switch t.Op {
	case "const":
		return constStr(t)
	case "var":
		p.vars[t.Name] = t.S
		return quote(t.Name)
	}
	if p.count[t.id] > 1 {
		p.define(t)
		return fmt.Sprintf("t%d", t.id)
	}
	return p.expr(t)
}

func (p *printer) expr(t *Term) string {
	args := make([]string, len(t.Args))
	for i, a := range t.Args {
		args[i] = p.ref(a)
	}
	switch t.Op {
	case "extract":
		return fmt.Sprintf("((_ extract %d %d) %s)", t.A, t.B, args[0])
	case "zero_extend", "sign_extend":
		return fmt.Sprintf("((_ %s %d) %s)", t.Op, t.A, args[0])
	case "constarr":
		return fmt.Sprintf("((as const %s) %s)", MemS, args[0])
	case "bvarr":
		r := fmt.Sprintf("((as const %s) #x00)", MemS)
		for i := 0; i < t.A; i++ {
			r = fmt.Sprintf("(store %s #x%016x ((_ extract %d %d) %s))", r, i, 8*(t.A-i)-1, 8*(t.A-i-1), args[0])
		}
		return r
	case "app":
		if _, ok := p.ufs[t.Name]; !ok {
			var ss []string
			for _, a := range t.Args {
				ss = append(ss, a.S.String())
			}
			p.ufs[t.Name] = fmt.Sprintf("(declare-fun %s (%s) %s)\n", quote(t.Name), strings.Join(ss, " "), t.S)
		}
		if len(args) == 0 {
			return quote(t.Name)
		}
		return "(" + quote(t.Name) + " " + strings.Join(args, " ") + ")"
	}
	return "(" + t.Op + " " + strings.Join(args, " ") + ")"
}

func (p *printer) define(t *Term) {
	if p.done[t.id] {
		return
	}
	p.done[t.id] = true
	e := p.expr(t) // defines children first
	fmt.Fprintf(&p.sb, "(define-fun t%d () %s %s)\n", t.id, t.S, e)
}

// Script renders "assert all of as" as SMT-LIB text (declarations included). extra are
// terms whose value is wanted from the model; they are defined but not asserted, and the
// returned strings are the expressions to put into (get-value ...).
func Script(as []*Term, extra []*Term) (string, []string) {
	p := &printer{done: map[int]bool{}, vars: map[string]Sort{}, ufs: map[string]string{}, count: map[int]int{}}
	for _, a := range as {
		p.refcount(a)
	}
	for _, a := range extra {
		p.refcount(a)
		p.refcount(a) // force definition
	}
	var asserts []string
	for _, a := range as {
		asserts = append(asserts, "(assert "+p.ref(a)+")\n")
	}
	var refs []string
	for _, a := range extra {
		refs = append(refs, p.ref(a))
	}
	var names []string
	for n := range p.vars {
		names = append(names, n)
	}
	sort.Strings(names)
	var out strings.Builder
	for _, n := range names {
		fmt.Fprintf(&out, "(declare-const %s %s)\n", quote(n), p.vars[n])
	}
	var ufn []string
	for n := range p.ufs {
		ufn = append(ufn, n)
	}
	sort.Strings(ufn)
	for _, n := range ufn {
		out.WriteString(p.ufs[n])
	}
	out.WriteString(p.sb.String())
	for _, a := range asserts {
		out.WriteString(a)
	}
	return out.String(), refs
}

// short rendering for evidence samples (sharing preserved: never expands the DAG)
func (t *Term) String() string {
	sc, _ := Script([]*Term{t}, nil)
	sc = strings.ReplaceAll(sc, "\n", " ")
	if len(sc) > 400 {
		sc = sc[:400] + "…"
	}
	return sc
}

// evalTerm evaluates a term under a model of variables (bv/bool only; arrays via arrModel
// and UF applications via ufModel). Returns nil if not evaluable.
type Model struct {
	Vars map[string]*big.Int            // scalar variables
	Arr  map[string]map[string]*big.Int // array var -> index(hex) -> byte
	Ext  map[int]*big.Int               // values of extra terms by term id
}

package main

// Text codecs (strconv, hex, base64, address hex, strings.Join/Split) modelled as injective free
// constructors over their payload: encode builds a tagged string, decode of a tagged string of
// the matching codec returns the payload, decode of anything else is arbitrary (value or error).

import (
	"fmt"
	"go/types"
	"math/big"
	"strings"

	"golang.org/x/tools/go/ssa"
)

// snap makes an immutable snapshot (Str kind 2, offset 0) of a byte slice.
func (e *Engine) snap(s *State, v Value) Str {
	b := v.(BSl)
	if b.Nil {
		return Str{Kind: 2, A: ZeroMem, Len: Idx(0), Max: 0}
	}
	ba := s.load(b.Loc).(BA)
	arr := ba.A
	if !(b.Off.IsConst() && b.Off.Val.Sign() == 0) {
		arr = ZeroMem
		for i := 0; i < b.Max; i++ {
			arr = Store(arr, Idx(i), Select(ba.A, Add(b.Off, Idx(i))))
		}
	}
	return Str{Kind: 2, A: arr, Len: b.Len, Max: b.Max}
}

func (e *Engine) unsnap(s *State, p Str) BSl {
	a, ln, max, ok := p.asBytes()
	if !ok {
		panic(engErr("unsnap of non-byte string"))
	}
	return e.newBytes(s, a, ln, max)
}

func encBytes(codec string) handler {
	return simple(func(e *Engine, s *State, a []Value, at ssa.Instruction, _ *ssa.Function) Value {
		return encStr(codec, e.snap(s, a[len(a)-1]))
	})
}

// decBytes: decode(string) ([]byte, error)
func decBytes(codec string) handler {
	return func(e *Engine, s *State, f *Frame, x ssa.Value, sf *ssa.Function, a []Value, at ssa.Instruction) ([]*State, bool) {
		st := a[len(a)-1].(Str)
		if st.Kind == 3 && st.Codec == codec {
			e.setRes(f, x, Tu{[]Value{e.unsnap(s, st.Payload.(Str)), If{}}})
			return nil, false
		}
		return e.decodeArbitraryOf(s, f, x, st, codec, func(ns *State) Value {
			n := 8
			arr, _ := e.nondetArr(ns, "dec."+codec, n)
			ln := e.freshVar(ns, "dec."+codec+".len", BVS(64))
			e.addPC(ns, Ule(ln, Idx(n)))
			return e.newBytes(ns, arr, ln, n)
		}, nilBSl())
	}
}

// decodeArbitrary forks into a success branch (arbitrary value) and an error branch.
// decodeArbitraryOf: like decodeArbitrary, but whether an opaque atom decodes is a function of
// the atom (decoding the same string twice gives the same verdict).
func (e *Engine) decodeArbitraryOf(s *State, f *Frame, x ssa.Value, st Str, what string, mk func(ns *State) Value, zeroV Value) ([]*State, bool) {
	if st.Kind == 1 && !e.initMode {
		okv := App("decodes."+what, BoolS, st.Atom)
		return e.forkOn(s, f, []alt{
			{okv, func(ns *State, nf *Frame) { ns.Lenient++; e.setRes(nf, x, Tu{[]Value{mk(ns), If{}}}) }, "decode-ok"},
			{Not(okv), func(ns *State, nf *Frame) { e.setRes(nf, x, Tu{[]Value{zeroV, e.newErr(ns, "decode "+what, nil)}}) }, "decode-err"},
		})
	}
	return e.decodeArbitrary(s, f, x, what, mk, zeroV)
}

func (e *Engine) decodeArbitrary(s *State, f *Frame, x ssa.Value, what string, mk func(ns *State) Value, zeroV Value) ([]*State, bool) {
	if e.initMode {
		// package initialisers must not fork: decoding of embedded data is not modelled
		e.setRes(f, x, Tu{[]Value{zeroV, e.newErr(s, "decode "+what+" during init", nil)}})
		return nil, false
	}
	okv := e.freshBool(s, "decode-ok."+what)
	return e.forkOn(s, f, []alt{
		{okv, func(ns *State, nf *Frame) { ns.Lenient++; e.setRes(nf, x, Tu{[]Value{mk(ns), If{}}}) }, "decode-ok"},
		{Not(okv), func(ns *State, nf *Frame) { e.setRes(nf, x, Tu{[]Value{zeroV, e.newErr(ns, "decode "+what, nil)}}) }, "decode-err"},
	})
}

func registerCodecs() {
	add := func(name string, h handler) { intrinsics[name] = h }
	add("strconv.FormatUint", simple(func(e *Engine, s *State, a []Value, at ssa.Instruction, _ *ssa.Function) Value {
		return encStr("u64dec", a[0])
	}))
	add("strconv.FormatInt", simple(func(e *Engine, s *State, a []Value, at ssa.Instruction, _ *ssa.Function) Value {
		return encStr("i64dec", a[0])
	}))
	add("strconv.Itoa", simple(func(e *Engine, s *State, a []Value, at ssa.Instruction, _ *ssa.Function) Value {
		return encStr("i64dec", a[0])
	}))
	// parse of a decimal codec string: the text of an unsigned (u64dec) or signed (i64dec) 64-bit
	// value; succeeds iff the value is representable in the requested type and size
	parseDec := func(signedResult bool, bitArg int) handler {
		return func(e *Engine, s *State, f *Frame, x ssa.Value, sf *ssa.Function, a []Value, at ssa.Instruction) ([]*State, bool) {
			st := a[0].(Str)
			zero := Sc{BVu(0, 64)}
			isDec := st.Kind == 3 && (st.Codec == "u64dec" || st.Codec == "i64dec")
			bits := 64
			if bitArg >= 0 {
				bt := a[bitArg].(Sc).T
				if !bt.IsConst() {
					isDec = false
				} else if b := int(bt.Val.Int64()); b != 0 {
					bits = b
				}
				if base := a[1].(Sc).T; !base.IsConst() || (base.Val.Int64() != 10 && base.Val.Int64() != 0) {
					isDec = false
				}
			}
			if !isDec {
				what := "u64dec"
				if signedResult {
					what = "i64dec"
				}
				return e.decodeArbitraryOf(s, f, x, st, what, func(ns *State) Value { return Sc{e.freshVar(ns, "dec."+what, BVS(64))} }, zero)
			}
			v := st.Payload.(Sc).T
			srcSigned := st.Codec == "i64dec"
			var ok *Term
			switch {
			case !signedResult && !srcSigned: // unsigned text into uintN
				ok = True
				if bits < 64 {
					ok = Ult(v, BV(new(big.Int).Lsh(big.NewInt(1), uint(bits)), 64))
				}
			case !signedResult && srcSigned: // possibly negative text into uintN
				ok = Sle(BVu(0, 64), v)
				if bits < 64 {
					ok = And(ok, Ult(v, BV(new(big.Int).Lsh(big.NewInt(1), uint(bits)), 64)))
				}
			case signedResult && !srcSigned: // unsigned text into intN
				ok = Ult(v, BV(new(big.Int).Lsh(big.NewInt(1), uint(bits-1)), 64))
			default: // signed text into intN
				ok = True
				if bits < 64 {
					lim := new(big.Int).Lsh(big.NewInt(1), uint(bits-1))
					ok = And(Slt(v, BV(lim, 64)), Sle(BV(new(big.Int).Neg(lim), 64), v))
				}
			}
			if ok == True {
				e.setRes(f, x, Tu{[]Value{Sc{v}, If{}}})
				return nil, false
			}
			return e.forkOn(s, f, []alt{
				{ok, func(ns *State, nf *Frame) { e.setRes(nf, x, Tu{[]Value{Sc{v}, If{}}}) }, "parse-ok"},
				{Not(ok), func(ns *State, nf *Frame) {
					e.setRes(nf, x, Tu{[]Value{zero, e.newErr(ns, "strconv: value out of range or sign not allowed", nil)}})
				}, "parse-range"},
			})
		}
	}
	add("strconv.ParseUint", parseDec(false, 2))
	add("strconv.ParseInt", parseDec(true, 2))
	add("strconv.Atoi", parseDec(true, -1))
	add("github.com/ethereum/go-ethereum/common/hexutil.Encode", encBytes("hexutil"))
	add("github.com/ethereum/go-ethereum/common/hexutil.Decode", decBytes("hexutil"))
	add("encoding/hex.EncodeToString", encBytes("hex"))
	add("encoding/hex.DecodeString", decBytes("hex"))
	add("(*encoding/base64.Encoding).EncodeToString", encBytes("b64"))
	add("(*encoding/base64.Encoding).DecodeString", decBytes("b64"))
	addrHex := simple(func(e *Engine, s *State, a []Value, at ssa.Instruction, _ *ssa.Function) Value {
		return encStr("addrhex", a[0])
	})
	add("(github.com/ethereum/go-ethereum/common.Address).Hex", addrHex)
	add("(github.com/ethereum/go-ethereum/common.Address).String", addrHex)
	hashHex := simple(func(e *Engine, s *State, a []Value, at ssa.Instruction, _ *ssa.Function) Value {
		return encStr("hashhex", a[0])
	})
	add("(github.com/ethereum/go-ethereum/common.Hash).Hex", hashHex)
	add("(github.com/ethereum/go-ethereum/common.Hash).String", hashHex)
	add("github.com/ethereum/go-ethereum/common.HexToAddress", simple(func(e *Engine, s *State, a []Value, at ssa.Instruction, sf *ssa.Function) Value {
		st := a[0].(Str)
		if st.Kind == 3 && st.Codec == "addrhex" {
			return st.Payload
		}
		// lenient parser: any string yields some address; equal strings yield equal addresses
		if st.Kind == 1 {
			return BA{A: BVArr(App("hextoaddr", BVS(160), st.Atom), 20), N: 20}
		}
		arr, _ := e.nondetArr(s, "hextoaddr", 20)
		return BA{A: arr, N: 20}
	}))
	add("github.com/ethereum/go-ethereum/common.IsHexAddress", simple(func(e *Engine, s *State, a []Value, at ssa.Instruction, sf *ssa.Function) Value {
		st := a[0].(Str)
		if st.Kind == 3 && st.Codec == "addrhex" {
			return Sc{True}
		}
		if st.Kind == 3 {
			return Sc{False}
		}
		s.Lenient++
		if st.Kind == 1 {
			return Sc{App("ishexaddr", BoolS, st.Atom)}
		}
		return Sc{e.freshBool(s, "ishexaddr")}
	}))
	hasPrefix := func(st Str, p string) *Term {
		if st.Kind == 0 {
			return Bool(strings.HasPrefix(st.Conc, p))
		}
		a, ln, _, ok := st.asBytes()
		if !ok {
			panic(engErr("strings prefix operation on an opaque string; the harness must provide a byte string"))
		}
		cs := []*Term{Ule(Idx(len(p)), ln)}
		for i := 0; i < len(p); i++ {
			cs = append(cs, Eq(Select(a, Idx(i)), BVu(uint64(p[i]), 8)))
		}
		return And(cs...)
	}
	add("strings.HasPrefix", simple(func(e *Engine, s *State, a []Value, at ssa.Instruction, sf *ssa.Function) Value {
		p := a[1].(Str)
		if p.Kind != 0 {
			panic(engErr("strings.HasPrefix with symbolic prefix"))
		}
		return Sc{hasPrefix(a[0].(Str), p.Conc)}
	}))
	indexByte := func(last bool) func(e *Engine, s *State, a []Value, at ssa.Instruction, sf *ssa.Function) Value {
		return func(e *Engine, s *State, a []Value, at ssa.Instruction, sf *ssa.Function) Value {
			arr, ln, max, ok := a[0].(Str).asBytes()
			if !ok {
				panic(engErr("strings.IndexByte on an opaque string; the harness must provide a byte string"))
			}
			c := a[1].(Sc).T
			res := BVu(^uint64(0), 64) // -1
			if last {
				for i := 0; i < max; i++ {
					res = Ite(And(Ult(Idx(i), ln), Eq(Select(arr, Idx(i)), c)), Idx(i), res)
				}
			} else {
				for i := max - 1; i >= 0; i-- {
					res = Ite(And(Ult(Idx(i), ln), Eq(Select(arr, Idx(i)), c)), Idx(i), res)
				}
			}
			return Sc{res}
		}
	}
	add("strings.LastIndexByte", simple(indexByte(true)))
	add("strings.IndexByte", simple(indexByte(false)))
	add("strings.Compare", simple(func(e *Engine, s *State, a []Value, at ssa.Instruction, sf *ssa.Function) Value {
		a1, l1, m1, ok1 := a[0].(Str).asBytes()
		a2, l2, m2, ok2 := a[1].(Str).asBytes()
		if !ok1 || !ok2 {
			panic(engErr("strings.Compare on an opaque string; the harness must provide a byte string"))
		}
		return Sc{bytesCompare(a1, Idx(0), l1, m1, a2, Idx(0), l2, m2)}
	}))
	add("strings.TrimPrefix", simple(func(e *Engine, s *State, a []Value, at ssa.Instruction, sf *ssa.Function) Value {
		st, p := a[0].(Str), a[1].(Str)
		if p.Kind != 0 {
			panic(engErr("strings.TrimPrefix with symbolic prefix"))
		}
		if st.Kind == 0 {
			return concStr(strings.TrimPrefix(st.Conc, p.Conc))
		}
		hp := hasPrefix(st, p.Conc)
		arr, ln, max, _ := st.asBytes()
		k := len(p.Conc)
		shifted := ZeroMem
		for i := 0; i+k < max; i++ {
			shifted = Store(shifted, Idx(i), Select(arr, Idx(i+k)))
		}
		return Str{Kind: 2, A: Ite(hp, shifted, arr), Len: Ite(hp, Sub(ln, Idx(k)), ln), Max: max}
	}))
	add("strings.Join", simple(func(e *Engine, s *State, a []Value, at ssa.Instruction, sf *ssa.Function) Value {
		sl := a[0].(Sl)
		sep := a[1].(Str)
		if sep.Kind != 0 {
			panic(engErr("strings.Join with symbolic separator"))
		}
		if sl.Nil || sl.Len == 0 {
			return concStr("")
		}
		ar := s.Objs[sl.Obj].(Ar)
		if sl.Len == 1 {
			return ar.E[sl.Off]
		}
		allConc := true
		var parts []string
		for i := 0; i < sl.Len; i++ {
			st := ar.E[sl.Off+i].(Str)
			if st.Kind != 0 {
				allConc = false
			}
			parts = append(parts, st.Conc)
		}
		if allConc {
			return concStr(strings.Join(parts, sep.Conc))
		}
		return encStr("join"+sep.Conc, Tu{append([]Value(nil), ar.E[sl.Off:sl.Off+sl.Len]...)})
	}))
	add("strings.Split", func(e *Engine, s *State, f *Frame, x ssa.Value, sf *ssa.Function, a []Value, at ssa.Instruction) ([]*State, bool) {
		st := a[0].(Str)
		sep := a[1].(Str)
		if sep.Kind != 0 {
			panic(engErr("strings.Split with symbolic separator"))
		}
		mkList := func(ns *State, elems []Value) Value {
			ar := Ar{append([]Value(nil), elems...)}
			return Sl{Obj: ns.alloc(ar), Len: len(elems), Cap: len(elems)}
		}
		switch {
		case st.Kind == 0:
			var el []Value
			for _, p := range strings.Split(st.Conc, sep.Conc) {
				el = append(el, concStr(p))
			}
			e.setRes(f, x, mkList(s, el))
			return nil, false
		case st.Kind == 3 && st.Codec == "join"+sep.Conc:
			e.setRes(f, x, mkList(s, st.Payload.(Tu).E))
			return nil, false
		case st.Kind == 3:
			// a single encoded element (stated assumption: codec output does not contain the separator)
			e.noteBound("strings.Split of a single encoded element yields that element (encoded elements contain no separator)")
			e.setRes(f, x, mkList(s, []Value{st}))
			return nil, false
		}
		// arbitrary string: 1..3 arbitrary pieces
		n := e.freshVar(s, "split.n", BVS(64))
		var alts []alt
		for k := 1; k <= 3; k++ {
			k := k
			alts = append(alts, alt{Eq(n, Idx(k)), func(ns *State, nf *Frame) {
				var el []Value
				for i := 0; i < k; i++ {
					el = append(el, Str{Kind: 1, Atom: e.freshVar(ns, "split.piece", BVS(64))})
				}
				e.setRes(nf, x, mkList(ns, el))
			}, fmt.Sprintf("split=%d", k)})
		}
		e.addPC(s, And(Ule(Idx(1), n), Ule(n, Idx(3))))
		e.noteBound("strings.Split of an arbitrary string yields at most 3 pieces")
		return e.forkOn(s, f, alts)
	})
}

var _ = types.Typ

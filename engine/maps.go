package main

// Maps as bounded association lists with symbolic occupancy; iteration order is symbolic.

import (
	"fmt"
	"go/types"

	"golang.org/x/tools/go/ssa"
)

const mapCap = 16

func (e *Engine) mapData(s *State, m Mp) *MapData { return s.Objs[m.Obj].(*MapData) }

// lookupTerm returns the merged value and the found-condition; ok=false when the stored values
// cannot be merged into one symbolic value (pointers etc.).
func lookupTerm(md *MapData, k Value, zeroV Value) (Value, *Term, bool) {
	found := False
	res := zeroV
	for i := len(md.Slots) - 1; i >= 0; i-- {
		sl := md.Slots[i]
		hit := And(sl.Occ, eqVal(sl.K, k))
		if hit == False {
			continue
		}
		var ok bool
		res, ok = iteVal(hit, sl.V, res)
		if !ok {
			return nil, nil, false
		}
		found = Or(found, hit)
	}
	return res, found, true
}

func (e *Engine) lookup(s *State, f *Frame, x *ssa.Lookup) (forks []*State, stop bool) {
	switch m := e.val(f, x.X).(type) {
	case Mp:
		vt := x.X.Type().Underlying().(*types.Map).Elem()
		set := func(nf *Frame, v Value, found *Term) {
			if x.CommaOk {
				nf.Env[x] = Tu{[]Value{v, Sc{found}}}
			} else {
				nf.Env[x] = v
			}
		}
		if m.Nil {
			set(f, zero(vt), False)
			return nil, false
		}
		md := e.mapData(s, m)
		k := e.val(f, x.Index)
		if v, found, ok := lookupTerm(md, k, zero(vt)); ok {
			set(f, v, found)
			return nil, false
		}
		// fork per slot
		var alts []alt
		none := True
		for _, sl := range md.Slots {
			sl := sl
			hit := And(sl.Occ, eqVal(sl.K, k))
			if hit == False {
				continue
			}
			none = And(none, Not(hit))
			alts = append(alts, alt{hit, func(ns *State, nf *Frame) { set(nf, sl.V, True) }, ""})
		}
		alts = append(alts, alt{none, func(ns *State, nf *Frame) { set(nf, zero(vt), False) }, ""})
		return e.forkOn(s, f, alts)
	case Str: // string indexing s[i]
		idx := e.idxTerm(f, x.Index)
		arr, ln, _, ok := m.asBytes()
		if !ok {
			panic(engErr("index into atom string"))
		}
		where := e.site(x) + ": " + exprText(x.X) + "[" + exprText(x.Index) + "]"
		bad := Not(Ult(idx, ln))
		if !e.oblige(s, bad, "index", where) {
			if !e.feasible(s, Not(bad)) {
				panic(abortPath{})
			}
		}
		e.addPC(s, Not(bad))
		f.Env[x] = Sc{Select(arr, idx)}
		return nil, false
	case Opq:
		f.Env[x] = e.opaqueResult(s, x.Type(), "lookup")
		return nil, false
	}
	panic(engErr(fmt.Sprintf("lookup in %T", e.val(f, x.X))))
}

func (e *Engine) mapUpdate(s *State, f *Frame, x *ssa.MapUpdate) (forks []*State, stop bool) {
	mv := e.val(f, x.Map)
	if _, ok := mv.(Opq); ok {
		return nil, false
	}
	m := mv.(Mp)
	if m.Nil {
		e.violation(s, "nil-map", e.site(x)+": assignment to entry in nil map "+exprText(x.Map))
		panic(abortPath{})
	}
	k, v := e.val(f, x.Key), e.val(f, x.Value)
	where := e.pos(x)
	if !mergeable(v) {
		// values cannot be merged under a symbolic hit condition: case split on which slot is hit
		md := e.mapData(s, m)
		var alts []alt
		none := True
		undecided := false
		for _, sl := range md.Slots {
			h := And(sl.Occ, eqVal(sl.K, k))
			if h == False {
				continue
			}
			if h != True {
				undecided = true
			}
			none = And(none, Not(h))
			alts = append(alts, alt{h, func(ns *State, nf *Frame) { e.mapStore(ns, m, k, v, where) }, ""})
		}
		if undecided {
			alts = append(alts, alt{none, func(ns *State, nf *Frame) { e.mapStore(ns, m, k, v, where) }, ""})
			return e.forkOn(s, f, alts)
		}
	}
	e.mapStore(s, m, k, v, where)
	return nil, false
}

func (e *Engine) mapStore(s *State, m Mp, k, v Value, where string) {
	old := e.mapData(s, m)
	nd := &MapData{Slots: append([]MapSlot(nil), old.Slots...)}
	// decide per slot whether it is hit (simplify with the solver: keeps terms small)
	found := False
	hits := make([]*Term, len(nd.Slots))
	for i, sl := range nd.Slots {
		h := And(sl.Occ, eqVal(sl.K, k))
		if h != False && h != True {
			h = e.decide(s, h)
		}
		hits[i] = h
		found = Or(found, h)
	}
	if found == True {
		for i, sl := range nd.Slots {
			if hits[i] == False {
				continue
			}
			nv, ok := iteVal(hits[i], v, sl.V)
			if !ok {
				panic(engErr("map update with unmergeable values at " + where))
			}
			nd.Slots[i] = MapSlot{Occ: sl.Occ, K: sl.K, V: nv}
		}
		s.Objs[m.Obj] = nd
		return
	}
	// reuse a definitely-free slot if there is one, else append
	free := -1
	for i, sl := range nd.Slots {
		if sl.Occ == False {
			free = i
			break
		}
	}
	if free < 0 {
		if len(nd.Slots) >= mapCap {
			panic(engErr("map capacity exceeded at " + where))
		}
		nd.Slots = append(nd.Slots, MapSlot{Occ: False, K: k, V: v})
		hits = append(hits, False)
		free = len(nd.Slots) - 1
	}
	for i, sl := range nd.Slots {
		if i == free {
			nd.Slots[i] = MapSlot{Occ: Not(found), K: k, V: v}
			continue
		}
		if hits[i] == False {
			continue
		}
		nv, ok := iteVal(hits[i], v, sl.V)
		if !ok {
			panic(engErr("map update with unmergeable values at " + where))
		}
		nd.Slots[i] = MapSlot{Occ: sl.Occ, K: sl.K, V: nv}
	}
	s.Objs[m.Obj] = nd
}

// mapStoreIf inserts k->v only when cond holds (no forking); values must be mergeable.
func (e *Engine) mapStoreIf(s *State, m Mp, k, v Value, cond *Term, where string) {
	old := e.mapData(s, m)
	nd := &MapData{Slots: append([]MapSlot(nil), old.Slots...)}
	found := False
	hits := make([]*Term, len(nd.Slots))
	for i, sl := range nd.Slots {
		h := And(sl.Occ, eqVal(sl.K, k))
		if h != False && h != True {
			h = e.decide(s, h)
		}
		hits[i] = h
		found = Or(found, h)
	}
	for i, sl := range nd.Slots {
		if hits[i] == False {
			continue
		}
		nv, ok := iteVal(And(cond, hits[i]), v, sl.V)
		if !ok {
			panic(engErr("conditional map insert with unmergeable values at " + where))
		}
		nd.Slots[i] = MapSlot{Occ: sl.Occ, K: sl.K, V: nv}
	}
	if found != True {
		if len(nd.Slots) >= mapCap {
			panic(engErr("map capacity exceeded at " + where))
		}
		nd.Slots = append(nd.Slots, MapSlot{Occ: And(cond, Not(found)), K: k, V: v})
	}
	s.Objs[m.Obj] = nd
}

func (e *Engine) mapDelete(s *State, m Mp, k Value) {
	if m.Nil {
		return
	}
	old := e.mapData(s, m)
	nd := &MapData{Slots: append([]MapSlot(nil), old.Slots...)}
	for i, sl := range nd.Slots {
		h := And(sl.Occ, eqVal(sl.K, k))
		if h == False {
			continue
		}
		h = e.decide(s, h)
		nd.Slots[i] = MapSlot{Occ: And(sl.Occ, Not(h)), K: sl.K, V: sl.V}
	}
	s.Objs[m.Obj] = nd
}

func mapLen(md *MapData) *Term {
	cnt := BVu(0, 64)
	for _, sl := range md.Slots {
		cnt = Add(cnt, Ite(sl.Occ, BVu(1, 64), BVu(0, 64)))
	}
	return cnt
}

func mergeable(v Value) bool {
	switch x := v.(type) {
	case Sc, BA, Big, Str:
		return true
	case St:
		for _, f := range x.F {
			if !mergeable(f) {
				return false
			}
		}
		return true
	case Ar:
		for _, f := range x.E {
			if !mergeable(f) {
				return false
			}
		}
		return true
	}
	return false
}

func (e *Engine) next(s *State, f *Frame, x *ssa.Next) (forks []*State, stop bool) {
	it := e.val(f, x.Iter).(It)
	if x.IsString {
		st := s.Objs[-2-it.Obj].(Str)
		rs := []rune(st.Conc)
		// iterate runes: Step counts runes
		if it.Step >= len(rs) {
			f.Env[x] = Tu{[]Value{Sc{False}, Sc{BVu(0, 64)}, Sc{BVu(0, 32)}}}
			return nil, false
		}
		off := len(string(rs[:it.Step]))
		f.Env[x.Iter] = It{Obj: it.Obj, Step: it.Step + 1}
		f.Env[x] = Tu{[]Value{Sc{True}, Sc{BVu(uint64(off), 64)}, Sc{BVi(int64(rs[it.Step]), 32)}}}
		return nil, false
	}
	mt := x.Iter.(*ssa.Range).X.Type().Underlying().(*types.Map)
	done := Tu{[]Value{Sc{False}, zero(mt.Key()), zero(mt.Elem())}}
	if it.Obj == -1 {
		f.Env[x] = done
		return nil, false
	}
	md := s.Objs[it.Obj].(*MapData)
	if len(md.Slots) == 0 {
		f.Env[x] = done
		return nil, false
	}
	allMerge := true
	for _, sl := range md.Slots {
		if !mergeable(sl.K) || !mergeable(sl.V) {
			allMerge = false
		}
	}
	if allMerge && len(it.SeenC) == 0 {
		// symbolic iteration order: one fresh choice variable per step
		cnt := BVu(0, 8)
		for _, sl := range md.Slots {
			cnt = Add(cnt, Ite(sl.Occ, BVu(1, 8), BVu(0, 8)))
		}
		ok := Ult(BVu(uint64(it.Step), 8), cnt)
		if ok == False {
			f.Env[x] = done
			return nil, false
		}
		c := e.freshVar(s, "maporder", BVS(8))
		cons := []*Term{Ult(c, BVu(uint64(len(md.Slots)), 8))}
		for _, p := range it.Seen {
			cons = append(cons, Not(Eq(c, p)))
		}
		// the values seen when the iteration is over are never used: start the selection chain
		// from the last slot instead of the zero value (keeps constant lengths constant)
		last := len(md.Slots) - 1
		var kv, vv Value = md.Slots[last].K, md.Slots[last].V
		occ := And(Eq(c, BVu(uint64(last), 8)), md.Slots[last].Occ)
		for i := last - 1; i >= 0; i-- {
			is := Eq(c, BVu(uint64(i), 8))
			kv, _ = iteVal(is, md.Slots[i].K, kv)
			vv, _ = iteVal(is, md.Slots[i].V, vv)
			occ = Ite(is, md.Slots[i].Occ, occ)
		}
		cons = append(cons, occ)
		e.addPC(s, Or(Not(ok), And(cons...)))
		f.Env[x.Iter] = It{Obj: it.Obj, Step: it.Step + 1, Seen: append(append([]*Term(nil), it.Seen...), c)}
		f.Env[x] = Tu{[]Value{Sc{ok}, kv, vv}}
		return nil, false
	}
	// forked iteration order
	seen := map[int]bool{}
	for _, i := range it.SeenC {
		seen[i] = true
	}
	var alts []alt
	none := True
	for i, sl := range md.Slots {
		if seen[i] || sl.Occ == False {
			continue
		}
		i, sl := i, sl
		none = And(none, Not(sl.Occ))
		alts = append(alts, alt{sl.Occ, func(ns *State, nf *Frame) {
			nf.Env[x.Iter] = It{Obj: it.Obj, Step: it.Step + 1, SeenC: append(append([]int(nil), it.SeenC...), i)}
			nf.Env[x] = Tu{[]Value{Sc{True}, sl.K, sl.V}}
		}, fmt.Sprintf("maporder:%d", i)})
	}
	alts = append(alts, alt{none, func(ns *State, nf *Frame) { nf.Env[x] = done }, ""})
	// note: alternatives are not mutually exclusive (any occupied unseen slot may come next)
	return e.forkAny(s, f, alts)
}

// forkAny is forkOn for alternatives that are not mutually exclusive: every feasible one is explored.
func (e *Engine) forkAny(s *State, f *Frame, alts []alt) (forks []*State, stop bool) {
	var feas []alt
	for _, a := range alts {
		if e.feasible(s, a.cond) {
			feas = append(feas, a)
		}
	}
	if len(feas) == 0 {
		panic(abortPath{})
	}
	if len(feas) == 1 {
		e.addPC(s, feas[0].cond)
		feas[0].apply(s, f)
		return nil, false
	}
	s.Branches++
	for i := len(feas) - 1; i >= 0; i-- {
		a := feas[i]
		ns := s.clone()
		e.addPC(ns, a.cond)
		if a.note != "" {
			ns.Trace = append(ns.Trace, a.note)
		}
		if e.applySafe(ns, ns.top(), a) {
			forks = append(forks, ns)
		}
	}
	return forks, true
}

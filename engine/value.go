package main

import (
	"fmt"
	"go/types"
	"math/big"
	"strings"
	"sync"

	"golang.org/x/tools/go/ssa"
)

type Value interface{}

// Sc is a scalar (bool or fixed-width integer).
type Sc struct{ T *Term }

// St is a struct value.
type St struct{ F []Value }

// Ar is an array of non-byte elements.
type Ar struct{ E []Value }

// BA is a [N]byte array value or the backing store of a byte slice: an SMT array term.
// N < 0 means a heap buffer (make([]byte, n)) with no static size.
type BA struct {
	A *Term
	N int
}

// Ptr is a concrete pointer: object + access path. Nil pointers have Nil set.
type Ptr struct {
	Obj  int
	Path []int
	Nil  bool
}

// BPtr points at one byte inside a BA location.
type BPtr struct {
	Loc Ptr
	Idx *Term
}

// Sl is a slice of non-byte elements with concrete shape; backing object is an Ar.
type Sl struct {
	Obj           int
	Off, Len, Cap int
	Nil           bool
	SymLen        *Term // if set: a slice of symbolic length whose elements are never accessed
}

// BSl is a byte slice: backing location holds a BA; offset/len/cap are 64-bit terms.
// Max is a concrete upper bound on Len used for bounded expansions.
type BSl struct {
	Loc           Ptr
	Off, Len, Cap *Term
	Max           int
	Nil           bool
}

// Str is a string. Kind 0: concrete; 1: atom (opaque identity, equality only);
// 2: bytes (immutable SMT array + length).
type Str struct {
	Kind    int
	Conc    string
	Atom    *Term
	A       *Term
	Len     *Term
	Max     int
	Codec   string // kind 3: the string is codec(Payload); codecs are treated as injective free constructors
	Payload Value
}

func encStr(codec string, payload Value) Str { return Str{Kind: 3, Codec: codec, Payload: payload} }

// codecs whose output is never the empty string
var nonEmptyCodec = map[string]bool{"u64dec": true, "i64dec": true, "addrhex": true, "hashhex": true, "hexutil": true}

// If is an interface value; T == nil is the nil interface.
type If struct {
	T types.Type
	V Value
}

// Fn is a function value / closure.
type Fn struct {
	F    *ssa.Function
	Bind []Value
	Nil  bool
}

// Tu is a tuple (multiple results).
type Tu struct{ E []Value }

// Mp is a map reference.
type Mp struct {
	Obj int
	Nil bool
}
type MapSlot struct {
	Occ  *Term
	K, V Value
}
type MapData struct{ Slots []MapSlot }

// It is a map/string iterator.
type It struct {
	Obj   int
	Step  int
	Seen  []*Term // chosen slot indices so far (symbolic order)
	SeenC []int   // chosen slot indices so far (forked order)
}

// Ch is a channel reference; backing object is *ChanData.
type Ch struct {
	Obj int
	Nil bool
}
type ChanData struct{ Q []Value }

// Big is the value of a math/big.Int struct: sign flag and magnitude of fixed width.
type Big struct {
	Neg *Term // Bool
	Mag *Term // BitVec bigW
}

// Opq is an opaque value produced by an opaque package (logging, metrics, tracing).
type Opq struct{ Tag string }

// ErrV is the payload of an opaque error value.
type ErrV struct {
	ID    int    // identity (sentinel or fresh)
	Name  string // for sentinels: qualified global name; else creation site
	Cause Value  // wrapped error (If) or nil
}

var errType types.Type // a named type standing for opaque errors (set at load)

func intWidth(t types.Type) (int, bool, bool) { // width, signed, ok
	b, ok := t.Underlying().(*types.Basic)
	if !ok {
		return 0, false, false
	}
	switch b.Kind() {
	case types.Int8:
		return 8, true, true
	case types.Int16:
		return 16, true, true
	case types.Int32, types.UntypedRune:
		return 32, true, true
	case types.Int64, types.Int, types.UntypedInt:
		return 64, true, true
	case types.Uint8:
		return 8, false, true
	case types.Uint16:
		return 16, false, true
	case types.Uint32:
		return 32, false, true
	case types.Uint64, types.Uint, types.Uintptr:
		return 64, false, true
	}
	return 0, false, false
}

func isBool(t types.Type) bool {
	b, ok := t.Underlying().(*types.Basic)
	return ok && (b.Kind() == types.Bool || b.Kind() == types.UntypedBool)
}

func isString(t types.Type) bool {
	b, ok := t.Underlying().(*types.Basic)
	return ok && b.Info()&types.IsString != 0
}

func isByte(t types.Type) bool {
	b, ok := t.Underlying().(*types.Basic)
	return ok && (b.Kind() == types.Uint8)
}

func isByteSlice(t types.Type) bool {
	s, ok := t.Underlying().(*types.Slice)
	return ok && isByte(s.Elem())
}

func isByteArray(t types.Type) (int, bool) {
	a, ok := t.Underlying().(*types.Array)
	if ok && isByte(a.Elem()) {
		return int(a.Len()), true
	}
	return 0, false
}

func isBigInt(t types.Type) bool {
	n, ok := t.(*types.Named)
	return ok && n.Obj().Pkg() != nil && n.Obj().Pkg().Path() == "math/big" && n.Obj().Name() == "Int"
}

func isNamed(t types.Type, pkg, name string) bool {
	n, ok := t.(*types.Named)
	return ok && n.Obj().Pkg() != nil && n.Obj().Pkg().Path() == pkg && n.Obj().Name() == name
}

const bigW = 320 // width of math/big magnitudes (stated bound)

func zeroBig() Big { return Big{Neg: False, Mag: BVu(0, bigW)} }

// zero value of a type
func zero(t types.Type) Value {
	if isBigInt(t) {
		return zeroBig()
	}
	switch u := t.Underlying().(type) {
	case *types.Basic:
		if isBool(t) {
			return Sc{False}
		}
		if w, _, ok := intWidth(t); ok {
			return Sc{BVu(0, w)}
		}
		if isString(t) {
			return Str{Kind: 0, Conc: ""}
		}
		if u.Kind() == types.UnsafePointer {
			return Ptr{Nil: true}
		}
		if u.Kind() == types.Float64 || u.Kind() == types.Float32 || u.Kind() == types.UntypedFloat {
			return Opq{"float"}
		}
		if u.Kind() == types.UntypedNil {
			return If{}
		}
		panic(engErr("zero: basic " + u.String()))
	case *types.Struct:
		f := make([]Value, u.NumFields())
		for i := range f {
			f[i] = zero(u.Field(i).Type())
		}
		return St{f}
	case *types.Array:
		if isByte(u.Elem()) {
			return BA{A: ZeroMem, N: int(u.Len())}
		}
		e := make([]Value, u.Len())
		for i := range e {
			e[i] = zero(u.Elem())
		}
		return Ar{e}
	case *types.Pointer:
		return Ptr{Nil: true}
	case *types.Slice:
		if isByte(u.Elem()) {
			return nilBSl()
		}
		return Sl{Nil: true}
	case *types.Map:
		return Mp{Nil: true}
	case *types.Chan:
		return Ch{Nil: true}
	case *types.Interface:
		return If{}
	case *types.Signature:
		return Fn{Nil: true}
	case *types.Tuple:
		e := make([]Value, u.Len())
		for i := range e {
			e[i] = zero(u.At(i).Type())
		}
		return Tu{e}
	case *types.TypeParam:
		panic(engErr("zero of type parameter " + t.String()))
	}
	panic(engErr(fmt.Sprintf("zero: %T %s", t.Underlying(), t)))
}

func nilBSl() BSl { return BSl{Nil: true, Off: Idx(0), Len: Idx(0), Cap: Idx(0)} }

type engineError struct{ msg string }

func engErr(msg string) engineError { return engineError{msg} }

// ---- interned strings <-> atoms ----

var internTab = map[string]*Term{}
var internRev = map[string]string{}

var internMu sync.Mutex

func internStr(s string) *Term {
	internMu.Lock()
	defer internMu.Unlock()
	if t, ok := internTab[s]; ok {
		return t
	}
	// reserved range: high bit set | index
	v := new(big.Int).SetUint64(uint64(len(internTab) + 1))
	v.SetBit(v, 63, 1)
	t := BV(v, 64)
	internTab[s] = t
	internRev[v.Text(16)] = s
	return t
}

func concStr(s string) Str { return Str{Kind: 0, Conc: s} }

// strAsBytes converts a concrete string into its bytes representation.
func strBytesTerm(s string) *Term {
	a := ZeroMem
	for i := 0; i < len(s); i++ {
		a = Store(a, Idx(i), BVu(uint64(s[i]), 8))
	}
	return a
}

func (s Str) asBytes() (a, ln *Term, max int, ok bool) {
	switch s.Kind {
	case 0:
		return strBytesTerm(s.Conc), Idx(len(s.Conc)), len(s.Conc), true
	case 2:
		return s.A, s.Len, s.Max, true
	case 3:
		// lower-case hex codecs have a byte-level expansion (needed for len / slicing of the text)
		if s.Codec == "hexutil" || s.Codec == "hex" {
			if p, isStr := s.Payload.(Str); isStr {
				pa, pl, pm, pok := p.asBytes()
				if pok && pm <= 64 {
					return hexExpand(pa, pl, pm, s.Codec == "hexutil")
				}
			}
		}
	}
	return nil, nil, 0, false
}

func hexExpand(pa, pl *Term, pm int, prefix bool) (a, ln *Term, max int, ok bool) {
	a = ZeroMem
	off := 0
	if prefix {
		a = Store(Store(a, Idx(0), BVu('0', 8)), Idx(1), BVu('x', 8))
		off = 2
	}
	digit := func(n *Term) *Term { // n: 8-bit value below 16
		return Ite(Ult(n, BVu(10, 8)), Add(n, BVu('0', 8)), Add(n, BVu('a'-10, 8)))
	}
	for i := 0; i < pm; i++ {
		b := Select(pa, Idx(i))
		a = Store(a, Idx(off+2*i), digit(ZExt(4, Extract(7, 4, b))))
		a = Store(a, Idx(off+2*i+1), digit(ZExt(4, Extract(3, 0, b))))
	}
	return a, Add(Add(pl, pl), Idx(off)), 2*pm + off, true
}

// bytesEqTerm: equality of two byte sequences (array, offset, len, max).
func bytesEqTerm(a1, o1, l1 *Term, m1 int, a2, o2, l2 *Term, m2 int) *Term {
	if l1.IsConst() && l2.IsConst() {
		if l1 != l2 {
			return False
		}
		n := int(l1.Val.Int64())
		if n == 0 {
			return True
		}
		return Eq(WordOf(a1, o1, n), WordOf(a2, o2, n))
	}
	m := m1
	if m2 < m {
		m = m2
	}
	cs := []*Term{Eq(l1, l2)}
	for i := 0; i < m; i++ {
		ii := Idx(i)
		cs = append(cs, Implies(Ult(ii, l1), Eq(Select(a1, Add(o1, ii)), Select(a2, Add(o2, ii)))))
	}
	// lengths beyond the smaller max cannot be equal unless both within it
	return And(cs...)
}

func strEq(a, b Str) *Term {
	if a.Kind == 0 && b.Kind == 0 {
		return Bool(a.Conc == b.Conc)
	}
	if a.Kind == 3 || b.Kind == 3 {
		if a.Kind != 3 {
			a, b = b, a
		}
		if b.Kind == 3 {
			if a.Codec != b.Codec {
				return False
			}
			return eqVal(a.Payload, b.Payload)
		}
		if b.Kind == 0 {
			if b.Conc == "" {
				if nonEmptyCodec[a.Codec] || strings.HasPrefix(a.Codec, "join") {
					return False
				}
				if p, ok := a.Payload.(Str); ok && p.Kind == 2 {
					return Eq(p.Len, Idx(0))
				}
			}
			if _, isConst := constCodecCompare(a, b.Conc); isConst {
				r, _ := constCodecCompare(a, b.Conc)
				return r
			}
		}
		if b.Kind == 1 {
			// mixed comparison with an opaque string: the encoded string's identity is an
			// uninterpreted function of codec and payload
			return Eq(encAtom(a), b.Atom)
		}
		// a codec with a byte-level expansion (lower-case hex) can be compared with a byte string
		if b.Kind == 2 || b.Kind == 0 {
			if a1, l1, m1, ok := a.asBytes(); ok {
				a2, l2, m2, _ := b.asBytes()
				return bytesEqTerm(a1, Idx(0), l1, m1, a2, Idx(0), l2, m2)
			}
		}
		panic(engErr("comparison of an encoded string (" + a.Codec + ") with a non-encoded string"))
	}
	if a.Kind == 1 || b.Kind == 1 {
		var ta, tb *Term
		switch a.Kind {
		case 0:
			ta = internStr(a.Conc)
		case 1:
			ta = a.Atom
		default:
			panic(engErr("comparison of an atom string with a byte string"))
		}
		switch b.Kind {
		case 0:
			tb = internStr(b.Conc)
		case 1:
			tb = b.Atom
		default:
			panic(engErr("comparison of an atom string with a byte string"))
		}
		return Eq(ta, tb)
	}
	a1, l1, m1, _ := a.asBytes()
	a2, l2, m2, _ := b.asBytes()
	return bytesEqTerm(a1, Idx(0), l1, m1, a2, Idx(0), l2, m2)
}

// constCodecCompare: comparison of codec output with a concrete string when decidable.
func constCodecCompare(a Str, c string) (*Term, bool) {
	switch a.Codec {
	case "addrhex", "hashhex", "hexutil":
		if !strings.HasPrefix(c, "0x") {
			return False, true
		}
	case "u64dec":
		for _, ch := range c {
			if ch < '0' || ch > '9' {
				return False, true
			}
		}
		if c == "" {
			return False, true
		}
	}
	return nil, false
}

// structural equality (Go's ==) as a term
func eqVal(a, b Value) *Term {
	switch x := a.(type) {
	case Sc:
		return Eq(x.T, b.(Sc).T)
	case St:
		y := b.(St)
		var cs []*Term
		for i := range x.F {
			cs = append(cs, eqVal(x.F[i], y.F[i]))
		}
		return And(cs...)
	case Ar:
		y := b.(Ar)
		var cs []*Term
		for i := range x.E {
			cs = append(cs, eqVal(x.E[i], y.E[i]))
		}
		return And(cs...)
	case BA:
		y := b.(BA)
		if x.N == 0 {
			return True
		}
		return Eq(WordOf(x.A, Idx(0), x.N), WordOf(y.A, Idx(0), y.N))
	case Str:
		return strEq(x, b.(Str))
	case If:
		y, ok := b.(If)
		if !ok {
			if _, isO := b.(Opq); isO {
				return Bool(false)
			}
			panic(engErr(fmt.Sprintf("eqVal If vs %T", b)))
		}
		if x.T == nil || y.T == nil {
			return Bool((x.T == nil) == (y.T == nil))
		}
		if !types.Identical(x.T, y.T) {
			return False
		}
		return eqVal(x.V, y.V)
	case ErrV:
		return Bool(x.ID == b.(ErrV).ID)
	case Ptr:
		y, ok := b.(Ptr)
		if !ok {
			return False
		}
		if x.Nil || y.Nil {
			return Bool(x.Nil == y.Nil)
		}
		if x.Obj != y.Obj || len(x.Path) != len(y.Path) {
			return False
		}
		for i := range x.Path {
			if x.Path[i] != y.Path[i] {
				return False
			}
		}
		return True
	case Mp:
		y := b.(Mp)
		if x.Nil || y.Nil {
			return Bool(x.Nil == y.Nil)
		}
		return Bool(x.Obj == y.Obj)
	case Ch:
		y := b.(Ch)
		if x.Nil || y.Nil {
			return Bool(x.Nil == y.Nil)
		}
		return Bool(x.Obj == y.Obj)
	case Sl: // only comparison with nil is legal in Go
		y := b.(Sl)
		return Bool(x.Nil && y.Nil)
	case BSl:
		y := b.(BSl)
		return Bool(x.Nil && y.Nil)
	case Fn:
		y := b.(Fn)
		return Bool(x.Nil && y.Nil)
	case Opq:
		if y, ok := b.(If); ok {
			return Bool(y.T == nil && false)
		}
		return True
	case Big:
		y := b.(Big)
		return And(Eq(x.Neg, y.Neg), Eq(x.Mag, y.Mag))
	case Tu:
		y, ok := b.(Tu)
		if !ok || len(x.E) != len(y.E) {
			return False
		}
		var cs []*Term
		for i := range x.E {
			cs = append(cs, eqVal(x.E[i], y.E[i]))
		}
		return And(cs...)
	}
	panic(engErr(fmt.Sprintf("eqVal %T", a)))
}

// iteVal merges two values of identical shape under a condition; ok=false if not mergeable.
func iteVal(c *Term, a, b Value) (v Value, ok bool) {
	if c == True {
		return a, true
	}
	if c == False {
		return b, true
	}
	defer func() {
		if r := recover(); r != nil {
			if _, isT := r.(mergeFail); isT {
				v, ok = nil, false
				return
			}
			panic(r)
		}
	}()
	return iteV(c, a, b), true
}

type mergeFail struct{}

func iteV(c *Term, a, b Value) Value {
	switch x := a.(type) {
	case Sc:
		return Sc{Ite(c, x.T, b.(Sc).T)}
	case St:
		y := b.(St)
		f := make([]Value, len(x.F))
		for i := range f {
			f[i] = iteV(c, x.F[i], y.F[i])
		}
		return St{f}
	case Ar:
		y := b.(Ar)
		e := make([]Value, len(x.E))
		for i := range e {
			e[i] = iteV(c, x.E[i], y.E[i])
		}
		return Ar{e}
	case BA:
		y := b.(BA)
		return BA{A: Ite(c, x.A, y.A), N: x.N}
	case Big:
		y := b.(Big)
		return Big{Neg: Ite(c, x.Neg, y.Neg), Mag: Ite(c, x.Mag, y.Mag)}
	case Str:
		y := b.(Str)
		if x.Kind == 0 && y.Kind == 0 && x.Conc == y.Conc {
			return x
		}
		if x.Kind == 3 || y.Kind == 3 {
			if x.Kind == 3 && y.Kind == 3 && x.Codec == y.Codec {
				return Str{Kind: 3, Codec: x.Codec, Payload: iteV(c, x.Payload, y.Payload)}
			}
			panic(mergeFail{})
		}
		if x.Kind == 1 || y.Kind == 1 {
			var ta, tb *Term
			if x.Kind == 0 {
				ta = internStr(x.Conc)
			} else if x.Kind == 1 {
				ta = x.Atom
			} else {
				panic(mergeFail{})
			}
			if y.Kind == 0 {
				tb = internStr(y.Conc)
			} else if y.Kind == 1 {
				tb = y.Atom
			} else {
				panic(mergeFail{})
			}
			return Str{Kind: 1, Atom: Ite(c, ta, tb)}
		}
		a1, l1, m1, _ := x.asBytes()
		a2, l2, m2, _ := y.asBytes()
		if m2 > m1 {
			m1 = m2
		}
		return Str{Kind: 2, A: Ite(c, a1, a2), Len: Ite(c, l1, l2), Max: m1}
	case BSl:
		y := b.(BSl)
		if x.Nil && y.Nil {
			return x
		}
		if x.Nil != y.Nil || eqVal(x.Loc, y.Loc) != True {
			panic(mergeFail{})
		}
		m := x.Max
		if y.Max > m {
			m = y.Max
		}
		return BSl{Loc: x.Loc, Off: Ite(c, x.Off, y.Off), Len: Ite(c, x.Len, y.Len), Cap: Ite(c, x.Cap, y.Cap), Max: m}
	case Ptr, Mp, Ch, Sl:
		if t := eqValSafe(a, b); t == True {
			return a
		}
		panic(mergeFail{})
	case If:
		y, ok := b.(If)
		if !ok {
			panic(mergeFail{})
		}
		if x.T == nil && y.T == nil {
			return x
		}
		if x.T == nil || y.T == nil || !types.Identical(x.T, y.T) {
			panic(mergeFail{})
		}
		return If{T: x.T, V: iteV(c, x.V, y.V)}
	case ErrV:
		if x.ID == b.(ErrV).ID {
			return x
		}
		panic(mergeFail{})
	case Opq:
		return a
	case Tu:
		y, ok := b.(Tu)
		if !ok || len(x.E) != len(y.E) {
			panic(mergeFail{})
		}
		e := make([]Value, len(x.E))
		for i := range e {
			e[i] = iteV(c, x.E[i], y.E[i])
		}
		return Tu{e}
	case Fn:
		y := b.(Fn)
		if x.Nil && y.Nil {
			return x
		}
		panic(mergeFail{})
	}
	panic(mergeFail{})
}

func eqValSafe(a, b Value) (t *Term) {
	defer func() {
		if r := recover(); r != nil {
			t = nil
		}
	}()
	return eqVal(a, b)
}

func flattenPure(v Value, out *[]*Term) {
	switch x := v.(type) {
	case Sc:
		*out = append(*out, x.T)
	case BA:
		if x.N > 0 {
			*out = append(*out, WordOf(x.A, Idx(0), x.N))
		}
	case Str:
		switch x.Kind {
		case 0:
			*out = append(*out, internStr(x.Conc))
		case 1:
			*out = append(*out, x.Atom)
		case 2:
			*out = append(*out, x.Len)
			for i := 0; i < x.Max; i++ {
				*out = append(*out, Ite(Ult(Idx(i), x.Len), Select(x.A, Idx(i)), BVu(0, 8)))
			}
		case 3:
			*out = append(*out, encAtom(x))
		}
	case Tu:
		*out = append(*out, Idx(len(x.E)))
		for _, e := range x.E {
			flattenPure(e, out)
		}
	case St:
		for _, e := range x.F {
			flattenPure(e, out)
		}
	case Ar:
		for _, e := range x.E {
			flattenPure(e, out)
		}
	default:
		panic(engErr(fmt.Sprintf("cannot flatten %T inside an encoded string", v)))
	}
}

func encAtom(a Str) *Term {
	var ts []*Term
	flattenPure(a.Payload, &ts)
	sig := ""
	for _, t := range ts {
		sig += fmt.Sprintf(".%d", t.S.W)
	}
	return App("enc:"+a.Codec+sig, BVS(64), ts...)
}

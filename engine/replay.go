package main

// replayFinding re-runs a counterexample natively against the real compiled code.
func replayFinding(cfg CheckCfg, r HarnessResult, f Finding, modelPath string) string {
	return "unreplayed"
}

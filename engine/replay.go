package main

// Native replay of counterexamples: the harness is compiled with the real Go compiler into the
// package under test (go test -overlay), vf* functions read the solver's model, every
// //verif:stub target is redirected through an injected hook, and the real code runs.

import (
	"bytes"
	"context"
	"encoding/json"
	"fmt"
	"go/ast"
	"go/parser"
	goprinter "go/printer"
	"go/token"
	"os"
	"os/exec"
	"path/filepath"
	"sort"
	"strings"
	"sync"
	"time"

	"golang.org/x/tools/go/ssa"
	"golang.org/x/tools/go/ssa/ssautil"
)

var loadedByHarness = map[string]*loaded{}
var loadedMu sync.Mutex

type hookInfo struct {
	target  string // full ssa name
	stub    string // harness function name
	file    string // source file of the target
	pkgPath string
	pkgName string
	varName string
}

func findFunction(prog *ssa.Program, full string, cache *map[string]*ssa.Function) *ssa.Function {
	if *cache == nil {
		*cache = map[string]*ssa.Function{}
		for fn := range ssautil.AllFunctions(prog) {
			(*cache)[fn.String()] = fn
		}
	}
	return (*cache)[full]
}

func exprString(fs *token.FileSet, n ast.Node) string {
	var b bytes.Buffer
	goprinter.Fprint(&b, fs, n)
	return b.String()
}

// injectHook rewrites src so that the function declared at offset pos starts with a hook check.
func injectHook(filename string, src []byte, declLine int, varName string) ([]byte, error) {
	fs := token.NewFileSet()
	af, err := parser.ParseFile(fs, filename, src, parser.ParseComments)
	if err != nil {
		return nil, err
	}
	var fd *ast.FuncDecl
	for _, d := range af.Decls {
		if f, ok := d.(*ast.FuncDecl); ok && fs.Position(f.Name.Pos()).Line == declLine {
			fd = f
		}
	}
	if fd == nil || fd.Body == nil {
		return nil, fmt.Errorf("function declaration not found at %s:%d", filename, declLine)
	}
	cnt := 0
	var argNames, typeStrs []string
	name := func(fl *ast.Field, variadicOK bool) {
		ts := exprString(fs, fl.Type)
		if len(fl.Names) == 0 {
			fl.Names = []*ast.Ident{ast.NewIdent(fmt.Sprintf("vfp%d", cnt))}
			cnt++
		}
		for _, n := range fl.Names {
			if n.Name == "_" {
				n.Name = fmt.Sprintf("vfp%d", cnt)
				cnt++
			}
			a := n.Name
			if _, isVar := fl.Type.(*ast.Ellipsis); isVar {
				a += "..."
			}
			argNames = append(argNames, a)
			typeStrs = append(typeStrs, ts)
		}
	}
	if fd.Recv != nil {
		for _, fl := range fd.Recv.List {
			name(fl, false)
		}
	}
	for _, fl := range fd.Type.Params.List {
		name(fl, true)
	}
	resStr := ""
	hasRes := fd.Type.Results != nil && len(fd.Type.Results.List) > 0
	if hasRes {
		var rs []string
		for _, fl := range fd.Type.Results.List {
			n := len(fl.Names)
			if n == 0 {
				n = 1
			}
			for i := 0; i < n; i++ {
				rs = append(rs, exprString(fs, fl.Type))
			}
		}
		resStr = " (" + strings.Join(rs, ", ") + ")"
	}
	hookType := "func(" + strings.Join(typeStrs, ", ") + ")" + resStr
	call := varName + "(" + strings.Join(argNames, ", ") + ")"
	stmt := "if " + varName + " != nil { "
	if hasRes {
		stmt += "return " + call
	} else {
		stmt += call + "; return"
	}
	stmt += " }"
	// print the modified declaration header, then splice the hook statement textually
	var out bytes.Buffer
	if err := goprinter.Fprint(&out, fs, af); err != nil {
		return nil, err
	}
	// re-parse printed source to find the body start offset reliably
	printed := out.Bytes()
	fs2 := token.NewFileSet()
	af2, err := parser.ParseFile(fs2, filename, printed, parser.ParseComments)
	if err != nil {
		return nil, err
	}
	var fd2 *ast.FuncDecl
	for _, d := range af2.Decls {
		if f, ok := d.(*ast.FuncDecl); ok && f.Name.Name == fd.Name.Name && (f.Recv == nil) == (fd.Recv == nil) {
			if f.Recv != nil && exprString(fs2, f.Recv.List[0].Type) != exprString(fs, fd.Recv.List[0].Type) {
				continue
			}
			fd2 = f
		}
	}
	if fd2 == nil {
		return nil, fmt.Errorf("cannot relocate %s", fd.Name.Name)
	}
	off := fs2.Position(fd2.Body.Lbrace).Offset + 1
	var res bytes.Buffer
	res.Write(printed[:off])
	res.WriteString("\n\t" + stmt + "\n")
	res.Write(printed[off:])
	res.WriteString("\nvar " + varName + " " + hookType + "\n")
	return res.Bytes(), nil
}

func replayFinding(cfg CheckCfg, r HarnessResult, f Finding, modelPath string) string {
	if os.Getenv("VERIF_NOREPLAY") != "" {
		return "unreplayed"
	}
	loadedMu.Lock()
	l := loadedByHarness[r.Name]
	loadedMu.Unlock()
	if l == nil {
		return "replay-error: package not loaded"
	}
	tmp, err := os.MkdirTemp("", "verif-replay-")
	if err != nil {
		return "replay-error: " + err.Error()
	}
	if os.Getenv("VERIF_KEEPTMP") == "" {
		defer os.RemoveAll(tmp)
	} else {
		fmt.Fprintln(os.Stderr, "replay dir:", tmp)
	}
	pkgdir := filepath.Join(repoMod, l.group.Pkg)
	pkgName := l.pkg.Pkg.Name()
	overlay := map[string]string{}
	put := func(virtual string, content []byte) {
		real := filepath.Join(tmp, fmt.Sprintf("f%d_%s", len(overlay), filepath.Base(virtual)))
		os.WriteFile(real, content, 0o644)
		overlay[virtual] = real
	}
	rtsrc, _ := os.ReadFile(filepath.Join(verifDir, "harness/rt/rt.go.tmpl"))
	put(filepath.Join(pkgdir, "zz_verif_rt.go"), []byte(strings.Replace(string(rtsrc), "package PKGNAME", "package "+pkgName, 1)))
	for _, hf := range l.group.Files {
		src, _ := os.ReadFile(filepath.Join(verifDir, hf))
		src = []byte(strings.Replace(string(src), "package PKGNAME", "package "+pkgName, 1))
		put(filepath.Join(pkgdir, filepath.Base(hf)), src)
	}
	// hooks
	var cache map[string]*ssa.Function
	var hooks []hookInfo
	var targets []string
	for t := range l.stubs {
		if symbolicOnly[t] {
			continue
		}
		targets = append(targets, t)
	}
	sort.Strings(targets)
	byFile := map[string][]int{}
	for i, t := range targets {
		fn := findFunction(l.prog, t, &cache)
		if fn == nil {
			return "replay-error: stub target not found: " + t
		}
		pos := l.fset.Position(fn.Pos())
		if !pos.IsValid() {
			return "replay-error: no source position for " + t
		}
		pp, pn := "", ""
		if fn.Pkg != nil {
			pp, pn = fn.Pkg.Pkg.Path(), fn.Pkg.Pkg.Name()
		}
		h := hookInfo{target: t, stub: l.stubs[t].Name(), file: pos.Filename, pkgPath: pp, pkgName: pn, varName: fmt.Sprintf("VerifHook_%d", i)}
		hooks = append(hooks, h)
		byFile[pos.Filename] = append(byFile[pos.Filename], len(hooks)-1)
	}
	for file, idxs := range byFile {
		src, err := os.ReadFile(file)
		if err != nil {
			return "replay-error: " + err.Error()
		}
		for _, i := range idxs {
			fn := findFunction(l.prog, hooks[i].target, &cache)
			// line of the declaration in the *current* text: search by original position only on first edit
			line := l.fset.Position(fn.Pos()).Line
			if len(idxs) > 1 {
				// after an injection earlier in the file lines shift; re-locate by name
				line = relocateLine(file, src, fn)
			}
			src, err = injectHook(file, src, line, hooks[i].varName)
			if err != nil {
				return "replay-error: hook " + hooks[i].target + ": " + err.Error()
			}
		}
		put(file, src)
	}
	// generated test + hook installation
	var g bytes.Buffer
	fmt.Fprintf(&g, "package %s\n\nimport (\n\t\"fmt\"\n\t\"runtime\"\n\t\"testing\"\n", pkgName)
	imports := map[string]string{}
	for _, h := range hooks {
		if h.pkgPath != l.pkg.Pkg.Path() && h.pkgPath != "" {
			if _, ok := imports[h.pkgPath]; !ok {
				imports[h.pkgPath] = fmt.Sprintf("vfhook%d", len(imports))
			}
		}
	}
	var ips []string
	for p := range imports {
		ips = append(ips, p)
	}
	sort.Strings(ips)
	for _, p := range ips {
		fmt.Fprintf(&g, "\t%s %q\n", imports[p], p)
	}
	fmt.Fprintf(&g, ")\n\nfunc vfInstallHooks() {\n")
	for _, h := range hooks {
		if alias, ok := imports[h.pkgPath]; ok {
			fmt.Fprintf(&g, "\t%s.%s = %s\n", alias, h.varName, h.stub)
		} else {
			fmt.Fprintf(&g, "\t%s = %s\n", h.varName, h.stub)
		}
	}
	fmt.Fprintf(&g, "}\n\n")
	fmt.Fprintf(&g, `func TestVerifReplay(t *testing.T) {
	vfLoad() // read the model before any hook (a harness may stub os.Open and friends)
	vfInstallHooks()
	vfNames = map[string]int{}
	var m0, m1 runtime.MemStats
	runtime.ReadMemStats(&m0)
	defer func() {
		r := recover()
		runtime.ReadMemStats(&m1)
		fmt.Printf("VERIF-ALLOC: %%d\n", m1.TotalAlloc-m0.TotalAlloc)
		switch x := r.(type) {
		case nil:
			fmt.Println("VERIF-REPLAY: completed")
		case vfAssumeFailed:
			fmt.Println("VERIF-REPLAY: assume-failed")
		case vfAssertFailed:
			fmt.Printf("VERIF-REPLAY: assert-failed %%s\n", x.Label)
		default:
			fmt.Printf("VERIF-REPLAY: panic %%v\n", r)
		}
	}()
	%s()
}
`, harnessFunc(r))
	put(filepath.Join(pkgdir, "zz_verif_replay_test.go"), g.Bytes())
	ovj, _ := json.Marshal(map[string]interface{}{"Replace": overlay})
	ovPath := filepath.Join(tmp, "overlay.json")
	os.WriteFile(ovPath, ovj, 0o644)
	count := "1"
	if f.Model != nil {
		for k := range f.Model.Vars {
			if strings.HasPrefix(k, "maporder") {
				count = "300"
			}
		}
	}
	for _, t := range f.Trace {
		// the path depends on the order in which a map of pointers was visited (forked order)
		if strings.Contains(t, "maporder") {
			count = "300"
		}
	}
	to := 600 * time.Second
	if f.Kind == "unwind" {
		to = 60 * time.Second
	}
	ctx, cancel := context.WithTimeout(context.Background(), to)
	defer cancel()
	args := []string{"-c", "ulimit -v 33554432; exec go test -v -vet=off -count=" + count + " -overlay " + ovPath + " -run '^TestVerifReplay$' ./" + l.group.Pkg}
	cmd := exec.CommandContext(ctx, "sh", args...)
	cmd.Dir = repoMod
	cmd.Env = append(os.Environ(), "GOFLAGS=-mod=mod", "GOPROXY=off", "VERIF_MODEL="+modelPath)
	for k, v := range r.Bounds {
		cmd.Env = append(cmd.Env, fmt.Sprintf("VERIF_PARAM_%s=%d", k, v))
	}
	out, err := cmd.CombinedOutput()
	text := string(out)
	if ctx.Err() != nil {
		if f.Kind == "unwind" {
			return "reproduced"
		}
		return "replay-error: timeout"
	}
	var verdicts []string
	maxAlloc := uint64(0)
	for _, ln := range strings.Split(text, "\n") {
		if strings.HasPrefix(ln, "VERIF-REPLAY: ") {
			verdicts = append(verdicts, strings.TrimPrefix(ln, "VERIF-REPLAY: "))
		}
		if strings.HasPrefix(ln, "VERIF-ALLOC: ") {
			var a uint64
			fmt.Sscan(strings.TrimPrefix(ln, "VERIF-ALLOC: "), &a)
			if a > maxAlloc {
				maxAlloc = a
			}
		}
	}
	if os.Getenv("VERIF_VERBOSE") != "" {
		fmt.Fprintf(os.Stderr, "replay %s %s: %v alloc=%d err=%v\n%s\n", r.Name, f.Where, dedup(verdicts), maxAlloc, err, tail(text, 1500))
	}
	if len(verdicts) == 0 {
		if f.Kind == "alloc" && (strings.Contains(text, "out of memory") || strings.Contains(text, "makeslice") || strings.Contains(text, "cannot allocate")) {
			return "reproduced"
		}
		if strings.Contains(text, "fatal error") || strings.Contains(text, "goroutine stack exceeds") {
			return "reproduced"
		}
		return "replay-error: no verdict: " + tail(text, 400)
	}
	for _, v := range verdicts {
		switch f.Kind {
		case "assert":
			if v == "assert-failed "+f.Where {
				return "reproduced"
			}
		case "alloc":
			if strings.HasPrefix(v, "panic") || maxAlloc > uint64(allocBoundOf(r)) {
				return "reproduced"
			}
		default:
			if strings.HasPrefix(v, "panic") {
				return "reproduced"
			}
		}
	}
	return "not-reproduced (" + strings.Join(dedup(verdicts), "; ") + ")"
}

func allocBoundOf(r HarnessResult) int64 {
	if r.AllocBound > 0 {
		return r.AllocBound
	}
	return 1 << 16
}

func tail(s string, n int) string {
	if len(s) > n {
		return s[len(s)-n:]
	}
	return s
}

func relocateLine(file string, src []byte, fn *ssa.Function) int {
	fs := token.NewFileSet()
	af, err := parser.ParseFile(fs, file, src, 0)
	if err != nil {
		return -1
	}
	recv := ""
	if r := fn.Signature.Recv(); r != nil {
		recv = r.Type().String()
		recv = recv[strings.LastIndex(recv, ".")+1:]
	}
	for _, d := range af.Decls {
		fd, ok := d.(*ast.FuncDecl)
		if !ok || fd.Name.Name != fn.Name() {
			continue
		}
		if (fd.Recv == nil) != (recv == "") {
			continue
		}
		if fd.Recv != nil {
			ts := exprString(fs, fd.Recv.List[0].Type)
			ts = strings.TrimPrefix(ts, "*")
			if ts != recv {
				continue
			}
		}
		return fs.Position(fd.Name.Pos()).Line
	}
	return -1
}

func harnessFunc(r HarnessResult) string {
	if r.Func != "" {
		return r.Func
	}
	return r.Name
}

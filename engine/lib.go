package main

// Models of library functions (intrinsics), keyed by ssa function full name.

import (
	"regexp"
	"fmt"
	"go/types"
	"strings"

	"golang.org/x/tools/go/ssa"
)

// concOf returns the concrete Go string of a string value or fails closed.
func concOf(v Value, what string) string {
	st, ok := v.(Str)
	if !ok || st.Kind != 0 {
		panic(engErr(what + " on a symbolic string (only concrete operands are modelled; stub it in the harness)"))
	}
	return st.Conc
}

func (e *Engine) bsl(s *State, v Value) (arr, off, ln *Term, max int, isNil bool) {
	switch b := v.(type) {
	case BSl:
		if b.Nil {
			return ZeroMem, Idx(0), Idx(0), 0, true
		}
		return s.load(b.Loc).(BA).A, b.Off, b.Len, b.Max, false
	case Str:
		a, l, m, ok := b.asBytes()
		if !ok {
			panic(engErr("atom string used as bytes"))
		}
		return a, Idx(0), l, m, false
	}
	panic(engErr(fmt.Sprintf("expected byte slice, got %T", v)))
}

func (e *Engine) newBytes(s *State, arr *Term, ln *Term, max int) BSl {
	loc := Ptr{Obj: s.alloc(BA{A: arr, N: -1})}
	return BSl{Loc: loc, Off: Idx(0), Len: ln, Cap: ln, Max: max}
}

func res(v Value) func(e *Engine, f *Frame, x ssa.Value) {
	return func(e *Engine, f *Frame, x ssa.Value) { e.setRes(f, x, v) }
}

func simple(fn func(e *Engine, s *State, args []Value, at ssa.Instruction, f *ssa.Function) Value) handler {
	return func(e *Engine, s *State, f *Frame, x ssa.Value, sf *ssa.Function, args []Value, at ssa.Instruction) ([]*State, bool) {
		e.setRes(f, x, fn(e, s, args, at, sf))
		return nil, false
	}
}

func variadicArgs(s *State, v Value) []Value {
	sl, ok := v.(Sl)
	if !ok || sl.Nil {
		return nil
	}
	ar := s.Objs[sl.Obj].(Ar)
	return ar.E[sl.Off : sl.Off+sl.Len]
}

func lastErrArg(s *State, v Value) Value {
	var cause Value
	for _, a := range variadicArgs(s, v) {
		if i, ok := a.(If); ok && i.T == errType {
			cause = i
		}
	}
	return cause
}

func bigOf(s *State, v Value) Big {
	p, ok := v.(Ptr)
	if !ok {
		panic(engErr(fmt.Sprintf("big.Int receiver is %T", v)))
	}
	if p.Nil {
		panic(engErr("nil *big.Int dereference inside math/big"))
	}
	return s.load(p).(Big)
}

func (e *Engine) bigNil(s *State, v Value, at ssa.Instruction, what string) {
	if p, ok := v.(Ptr); ok && p.Nil {
		e.violation(s, "nil-deref", e.site(at)+": "+what+" on nil *big.Int")
		panic(abortPath{})
	}
}

func bigCmp(a, b Big) *Term {
	neg1, pos1, zero := BVi(-1, 64), BVu(1, 64), BVu(0, 64)
	magLt, magGt := Ult(a.Mag, b.Mag), Ult(b.Mag, a.Mag)
	// both non-negative: by magnitude; both negative: reversed
	pp := Ite(magLt, neg1, Ite(magGt, pos1, zero))
	nn := Ite(magLt, pos1, Ite(magGt, neg1, zero))
	return Ite(a.Neg, Ite(b.Neg, nn, neg1), Ite(b.Neg, pos1, pp))
}

func init() {
	intrinsics = map[string]handler{
		"bytes.Equal": simple(func(e *Engine, s *State, a []Value, at ssa.Instruction, _ *ssa.Function) Value {
			a1, o1, l1, m1, _ := e.bsl(s, a[0])
			a2, o2, l2, m2, _ := e.bsl(s, a[1])
			return Sc{bytesEqTerm(a1, o1, l1, m1, a2, o2, l2, m2)}
		}),
		"bytes.Compare": simple(func(e *Engine, s *State, a []Value, at ssa.Instruction, _ *ssa.Function) Value {
			a1, o1, l1, m1, _ := e.bsl(s, a[0])
			a2, o2, l2, m2, _ := e.bsl(s, a[1])
			return Sc{bytesCompare(a1, o1, l1, m1, a2, o2, l2, m2)}
		}),
		"errors.New": simple(func(e *Engine, s *State, a []Value, at ssa.Instruction, _ *ssa.Function) Value {
			return e.newErr(s, "errors.New", nil)
		}),
		"fmt.Errorf": simple(func(e *Engine, s *State, a []Value, at ssa.Instruction, _ *ssa.Function) Value {
			var cause Value
			if st, ok := a[0].(Str); ok && st.Kind == 0 && strings.Contains(st.Conc, "%w") {
				cause = lastErrArg(s, a[1])
			}
			return e.newErr(s, "fmt.Errorf", cause)
		}),
		"(net/http.HandlerFunc).ServeHTTP": func(e *Engine, s *State, f *Frame, x ssa.Value, sf *ssa.Function, a []Value, at ssa.Instruction) ([]*State, bool) {
			return e.callValue(s, f, x, nil, a[0], a[1:], at)
		},
		// ---- bytes.Buffer (append-only use) ----
		"(*bytes.Buffer).Write": simple(func(e *Engine, s *State, a []Value, at ssa.Instruction, f *ssa.Function) Value {
			p := a[0].(Ptr)
			st := s.load(p).(St)
			nb := e.appendB(s, types.NewSlice(types.Typ[types.Byte]), st.F[0], a[1])
			nf := append([]Value(nil), st.F...)
			nf[0] = nb
			s.store(p, St{nf})
			return Tu{[]Value{Sc{e.lenOf(s, a[1])}, If{}}}
		}),
		"(*bytes.Buffer).WriteString": simple(func(e *Engine, s *State, a []Value, at ssa.Instruction, f *ssa.Function) Value {
			p := a[0].(Ptr)
			st := s.load(p).(St)
			nb := e.appendB(s, types.NewSlice(types.Typ[types.Byte]), st.F[0], a[1])
			nf := append([]Value(nil), st.F...)
			nf[0] = nb
			s.store(p, St{nf})
			return Tu{[]Value{Sc{e.lenOf(s, a[1])}, If{}}}
		}),
		"(*bytes.Buffer).WriteByte": simple(func(e *Engine, s *State, a []Value, at ssa.Instruction, f *ssa.Function) Value {
			p := a[0].(Ptr)
			st := s.load(p).(St)
			one := e.newBytes(s, Store(ZeroMem, Idx(0), a[1].(Sc).T), Idx(1), 1)
			nb := e.appendB(s, types.NewSlice(types.Typ[types.Byte]), st.F[0], one)
			nf := append([]Value(nil), st.F...)
			nf[0] = nb
			s.store(p, St{nf})
			return If{}
		}),
		"(*bytes.Buffer).Bytes": simple(func(e *Engine, s *State, a []Value, at ssa.Instruction, f *ssa.Function) Value {
			return s.load(a[0].(Ptr)).(St).F[0]
		}),
		"(*bytes.Buffer).Len": simple(func(e *Engine, s *State, a []Value, at ssa.Instruction, f *ssa.Function) Value {
			return Sc{e.lenOf(s, s.load(a[0].(Ptr)).(St).F[0])}
		}),
		"github.com/ferranbt/fastssz.ErrBytesLengthFn": simple(func(e *Engine, s *State, a []Value, at ssa.Instruction, _ *ssa.Function) Value {
			return e.newErr(s, "ssz.ErrBytesLength", nil)
		}),
		"github.com/pkg/errors.New": simple(func(e *Engine, s *State, a []Value, at ssa.Instruction, _ *ssa.Function) Value {
			return e.newErr(s, "errors.New", nil)
		}),
		"github.com/pkg/errors.Errorf": simple(func(e *Engine, s *State, a []Value, at ssa.Instruction, _ *ssa.Function) Value {
			return e.newErr(s, "errors.Errorf", nil)
		}),
		"github.com/pkg/errors.Wrap": simple(func(e *Engine, s *State, a []Value, at ssa.Instruction, _ *ssa.Function) Value {
			if i, ok := a[0].(If); ok && i.T == nil {
				return If{}
			}
			return e.newErr(s, "errors.Wrap", a[0])
		}),
		"github.com/pkg/errors.Wrapf": simple(func(e *Engine, s *State, a []Value, at ssa.Instruction, _ *ssa.Function) Value {
			if i, ok := a[0].(If); ok && i.T == nil {
				return If{}
			}
			return e.newErr(s, "errors.Wrapf", a[0])
		}),
		"github.com/pkg/errors.WithStack": simple(func(e *Engine, s *State, a []Value, at ssa.Instruction, _ *ssa.Function) Value {
			if i, ok := a[0].(If); ok && i.T == nil {
				return If{}
			}
			return e.newErr(s, "errors.WithStack", a[0])
		}),
		"github.com/pkg/errors.WithMessage": simple(func(e *Engine, s *State, a []Value, at ssa.Instruction, _ *ssa.Function) Value {
			if i, ok := a[0].(If); ok && i.T == nil {
				return If{}
			}
			return e.newErr(s, "errors.WithMessage", a[0])
		}),
		"github.com/pkg/errors.Is": simple(func(e *Engine, s *State, a []Value, at ssa.Instruction, _ *ssa.Function) Value {
			return Sc{Bool(errIs(a[0], a[1]))}
		}),
		"errors.Is": simple(func(e *Engine, s *State, a []Value, at ssa.Instruction, _ *ssa.Function) Value {
			return Sc{Bool(errIs(a[0], a[1]))}
		}),
		"errors.Unwrap": simple(func(e *Engine, s *State, a []Value, at ssa.Instruction, _ *ssa.Function) Value {
			if i, ok := a[0].(If); ok && i.T == errType {
				if c := i.V.(ErrV).Cause; c != nil {
					return c
				}
			}
			return If{}
		}),
		"fmt.Sprintf": simple(func(e *Engine, s *State, a []Value, at ssa.Instruction, _ *ssa.Function) Value {
			if st, ok := a[0].(Str); ok && st.Kind == 0 && !strings.Contains(st.Conc, "%") {
				return st
			}
			// Sprintf("%d", unsigned) is the decimal rendering, the same string strconv.FormatUint gives
			if st, ok := a[0].(Str); ok && st.Kind == 0 && st.Conc == "%d" {
				if va := variadicArgs(s, a[1]); len(va) == 1 {
					if iv, ok := va[0].(If); ok && iv.T != nil {
						if _, sg, isInt := intWidth(iv.T); isInt && !sg {
							return encStr("u64dec", Sc{Resize(iv.V.(Sc).T, 64, false)})
						}
					}
				}
			}
			return Str{Kind: 1, Atom: e.freshVar(s, "sprintf", BVS(64))}
		}),
		"fmt.Sprint": simple(func(e *Engine, s *State, a []Value, at ssa.Instruction, _ *ssa.Function) Value {
			return Str{Kind: 1, Atom: e.freshVar(s, "sprint", BVS(64))}
		}),
		"fmt.Sprintln": simple(func(e *Engine, s *State, a []Value, at ssa.Instruction, _ *ssa.Function) Value {
			return Str{Kind: 1, Atom: e.freshVar(s, "sprint", BVS(64))}
		}),
		"fmt.Println": simple(func(e *Engine, s *State, a []Value, at ssa.Instruction, f *ssa.Function) Value {
			return e.opaqueResult(s, f.Signature.Results(), "println")
		}),
		"fmt.Printf": simple(func(e *Engine, s *State, a []Value, at ssa.Instruction, f *ssa.Function) Value {
			return e.opaqueResult(s, f.Signature.Results(), "printf")
		}),
		"fmt.Print": simple(func(e *Engine, s *State, a []Value, at ssa.Instruction, f *ssa.Function) Value {
			return e.opaqueResult(s, f.Signature.Results(), "print")
		}),
		// proto.Clone: deep copy of the message (unknown fields and internal state are zero in harness-built messages)
		"google.golang.org/protobuf/proto.Clone": simple(func(e *Engine, s *State, a []Value, at ssa.Instruction, _ *ssa.Function) Value {
			return e.deepCopy(s, a[0], map[int]int{})
		}),
		// reflect.TypeOf: the dynamic type as an interface value wrapping its name; equality of two
		// results is type identity, String() is the name
		// sort.Ints / sort.Slice-free integer sorts: a compare-exchange network over the elements
		"sort.Ints": func(e *Engine, s *State, f *Frame, x ssa.Value, sf *ssa.Function, a []Value, at ssa.Instruction) ([]*State, bool) {
			sl := a[0].(Sl)
			if sl.Nil || sl.Len < 2 {
				return nil, false
			}
			if sl.SymLen != nil {
				panic(engErr("sort.Ints of a slice with symbolic length"))
			}
			ar := s.Objs[sl.Obj].(Ar)
			na := Ar{append([]Value(nil), ar.E...)}
			n := sl.Len
			for i := 0; i < n; i++ {
				for j := 0; j+1 < n-i; j++ {
					p, q := na.E[sl.Off+j].(Sc).T, na.E[sl.Off+j+1].(Sc).T
					c := Slt(q, p)
					na.E[sl.Off+j], na.E[sl.Off+j+1] = Sc{Ite(c, q, p)}, Sc{Ite(c, p, q)}
				}
			}
			s.Objs[sl.Obj] = na
			return nil, false
		},
		// regular expressions and string replacement on concrete operands are evaluated natively
		// (the request paths and route templates of the path-matching harness are concrete)
		"regexp.QuoteMeta": simple(func(e *Engine, s *State, a []Value, at ssa.Instruction, _ *ssa.Function) Value {
			return concStr(regexp.QuoteMeta(concOf(a[0], "regexp.QuoteMeta")))
		}),
		"strings.Contains": simple(func(e *Engine, s *State, a []Value, at ssa.Instruction, _ *ssa.Function) Value {
			if strings.Contains(concOf(a[0], "strings.Contains"), concOf(a[1], "strings.Contains")) {
				return Sc{True}
			}
			return Sc{False}
		}),
		"strings.ReplaceAll": simple(func(e *Engine, s *State, a []Value, at ssa.Instruction, _ *ssa.Function) Value {
			return concStr(strings.ReplaceAll(concOf(a[0], "strings.ReplaceAll"), concOf(a[1], "strings.ReplaceAll"), concOf(a[2], "strings.ReplaceAll")))
		}),
		"regexp.MustCompile": simple(func(e *Engine, s *State, a []Value, at ssa.Instruction, _ *ssa.Function) Value {
			pat := concOf(a[0], "regexp.MustCompile")
			if _, err := regexp.Compile(pat); err != nil {
				panic(engErr("regexp.MustCompile would panic: " + err.Error()))
			}
			return Opq{"regexp:" + pat}
		}),
		"(*regexp.Regexp).ReplaceAllString": simple(func(e *Engine, s *State, a []Value, at ssa.Instruction, _ *ssa.Function) Value {
			o, ok := a[0].(Opq)
			if !ok || !strings.HasPrefix(o.Tag, "regexp:") {
				panic(engErr("ReplaceAllString on an unknown regexp"))
			}
			re := regexp.MustCompile(strings.TrimPrefix(o.Tag, "regexp:"))
			return concStr(re.ReplaceAllString(concOf(a[1], "ReplaceAllString"), concOf(a[2], "ReplaceAllString")))
		}),
		"regexp.MatchString": simple(func(e *Engine, s *State, a []Value, at ssa.Instruction, _ *ssa.Function) Value {
			m, err := regexp.MatchString(concOf(a[0], "regexp.MatchString"), concOf(a[1], "regexp.MatchString"))
			if err != nil {
				return Tu{[]Value{Sc{False}, e.newErr(s, "regexp: "+err.Error(), nil)}}
			}
			return Tu{[]Value{Sc{Bool(m)}, If{}}}
		}),
		"reflect.TypeOf": simple(func(e *Engine, s *State, a []Value, at ssa.Instruction, _ *ssa.Function) Value {
			i, ok := a[0].(If)
			if !ok || i.T == nil {
				return If{}
			}
			return If{T: types.Typ[types.String], V: concStr("type:" + types.TypeString(i.T, nil))}
		}),
		"reflect.DeepEqual": simple(func(e *Engine, s *State, a []Value, at ssa.Instruction, _ *ssa.Function) Value {
			return Sc{e.deepEq(s, a[0], a[1], true, 0)}
		}),
		// math/bits.Len on a concrete operand (the generic sorts of package slices compute their
		// recursion limit from the concrete length)
		"math/bits.Len": simple(func(e *Engine, s *State, a []Value, at ssa.Instruction, _ *ssa.Function) Value {
			t := a[0].(Sc).T
			if !t.IsConst() {
				panic(engErr("math/bits.Len of a symbolic value"))
			}
			return Sc{Idx(t.Val.BitLen())}
		}),
		"sort.Slice": func(e *Engine, s *State, f *Frame, x ssa.Value, sf *ssa.Function, a []Value, at ssa.Instruction) ([]*State, bool) {
			rt := e.rtPkgFns["vfSortSlice"]
			if rt == nil {
				panic(engErr("runtime vfSortSlice missing"))
			}
			sl, ok := a[0].(If).V.(Sl)
			if !ok {
				panic(engErr("sort.Slice of non-generic slice"))
			}
			return e.push(s, f, nil, rt, nil, []Value{a[0], Sc{Idx(sl.Len)}, a[1]})
		},
		// ---- math/big ----
		"math/big.NewInt": simple(func(e *Engine, s *State, a []Value, at ssa.Instruction, _ *ssa.Function) Value {
			t := a[0].(Sc).T
			neg := Slt(t, BVu(0, 64))
			mag := ZExt(bigW-64, Ite(neg, Sub(BVu(0, 64), t), t))
			return Ptr{Obj: s.alloc(Big{Neg: neg, Mag: mag})}
		}),
		"(*math/big.Int).SetBytes": simple(func(e *Engine, s *State, a []Value, at ssa.Instruction, _ *ssa.Function) Value {
			e.bigNil(s, a[0], at, "SetBytes")
			arr, off, ln, max, _ := e.bsl(s, a[1])
			mag := BVu(0, bigW)
			ovf := False
			for i := 0; i < max; i++ {
				ii := Idx(i)
				in := Ult(ii, ln)
				top := Not(Eq(Extract(bigW-1, bigW-8, mag), BVu(0, 8)))
				ovf = Or(ovf, And(in, top))
				nm := BinBV("bvor", BinBV("bvshl", mag, BVu(8, bigW)), ZExt(bigW-8, Select(arr, Add(off, ii))))
				mag = Ite(in, nm, mag)
			}
			if ovf != False {
				// stated bound: big.Int magnitudes fit bigW bits
				if !e.feasible(s, Not(ovf)) {
					panic(abortPath{})
				}
				e.addPC(s, Not(ovf))
				e.noteBound(fmt.Sprintf("math/big magnitudes are bounded by 2^%d (paths with larger values are outside the claim)", bigW))
			}
			s.store(a[0].(Ptr), Big{Neg: False, Mag: mag})
			return a[0]
		}),
		"(*math/big.Int).SetUint64": simple(func(e *Engine, s *State, a []Value, at ssa.Instruction, _ *ssa.Function) Value {
			e.bigNil(s, a[0], at, "SetUint64")
			s.store(a[0].(Ptr), Big{Neg: False, Mag: ZExt(bigW-64, a[1].(Sc).T)})
			return a[0]
		}),
		"(*math/big.Int).SetInt64": simple(func(e *Engine, s *State, a []Value, at ssa.Instruction, _ *ssa.Function) Value {
			e.bigNil(s, a[0], at, "SetInt64")
			t := a[1].(Sc).T
			neg := Slt(t, BVu(0, 64))
			s.store(a[0].(Ptr), Big{Neg: neg, Mag: ZExt(bigW-64, Ite(neg, Sub(BVu(0, 64), t), t))})
			return a[0]
		}),
		"(*math/big.Int).Set": simple(func(e *Engine, s *State, a []Value, at ssa.Instruction, _ *ssa.Function) Value {
			e.bigNil(s, a[0], at, "Set")
			e.bigNil(s, a[1], at, "Set")
			s.store(a[0].(Ptr), bigOf(s, a[1]))
			return a[0]
		}),
		"(*math/big.Int).Uint64": simple(func(e *Engine, s *State, a []Value, at ssa.Instruction, _ *ssa.Function) Value {
			e.bigNil(s, a[0], at, "Uint64")
			return Sc{Extract(63, 0, bigOf(s, a[0]).Mag)}
		}),
		"(*math/big.Int).Int64": simple(func(e *Engine, s *State, a []Value, at ssa.Instruction, _ *ssa.Function) Value {
			e.bigNil(s, a[0], at, "Int64")
			b := bigOf(s, a[0])
			lo := Extract(63, 0, b.Mag)
			return Sc{Ite(b.Neg, Sub(BVu(0, 64), lo), lo)}
		}),
		"(*math/big.Int).IsUint64": simple(func(e *Engine, s *State, a []Value, at ssa.Instruction, _ *ssa.Function) Value {
			e.bigNil(s, a[0], at, "IsUint64")
			b := bigOf(s, a[0])
			return Sc{And(Not(b.Neg), Eq(Extract(bigW-1, 64, b.Mag), BVu(0, bigW-64)))}
		}),
		"(*math/big.Int).IsInt64": simple(func(e *Engine, s *State, a []Value, at ssa.Instruction, _ *ssa.Function) Value {
			e.bigNil(s, a[0], at, "IsInt64")
			b := bigOf(s, a[0])
			hi0 := Eq(Extract(bigW-1, 63, b.Mag), BVu(0, bigW-63))
			min := Eq(b.Mag, BinBV("bvshl", BVu(1, bigW), BVu(63, bigW)))
			return Sc{Or(hi0, And(b.Neg, min))}
		}),
		// ---- holiman/uint256 (the three entry points a big.Int fast path uses): Int is [4]uint64,
		// least significant limb first ----
		"(*github.com/holiman/uint256.Int).SetFromBig": simple(func(e *Engine, s *State, a []Value, at ssa.Instruction, _ *ssa.Function) Value {
			e.bigNil(s, a[1], at, "SetFromBig")
			b := bigOf(s, a[1])
			low := Extract(255, 0, b.Mag)
			low = Ite(b.Neg, Sub(BVu(0, 256), low), low) // the library negates modulo 2^256
			s.store(a[0].(Ptr), u256Limbs(low))
			return Sc{Not(Eq(Extract(bigW-1, 256, b.Mag), BVu(0, bigW-256)))}
		}),
		"(*github.com/holiman/uint256.Int).SetBytes": simple(func(e *Engine, s *State, a []Value, at ssa.Instruction, _ *ssa.Function) Value {
			arr, off, ln, _, _ := e.bsl(s, a[1])
			// the last 32 bytes of the buffer, big endian
			var v *Term
			for k := 31; k >= 0; k-- {
				kk := Idx(k)
				by := Ite(Ult(kk, ln), Select(arr, Sub(Sub(Add(off, ln), Idx(1)), kk)), BVu(0, 8))
				if v == nil {
					v = by
				} else {
					v = Concat(v, by)
				}
			}
			s.store(a[0].(Ptr), u256Limbs(v))
			return a[0]
		}),
		"(*github.com/holiman/uint256.Int).Cmp": simple(func(e *Engine, s *State, a []Value, at ssa.Instruction, _ *ssa.Function) Value {
			x, y := u256Of(s, a[0]), u256Of(s, a[1])
			return Sc{Ite(Ult(x, y), BVi(-1, 64), Ite(Eq(x, y), BVu(0, 64), BVu(1, 64)))}
		}),
		"(*math/big.Int).Cmp": simple(func(e *Engine, s *State, a []Value, at ssa.Instruction, _ *ssa.Function) Value {
			e.bigNil(s, a[0], at, "Cmp")
			e.bigNil(s, a[1], at, "Cmp")
			return Sc{bigCmp(bigOf(s, a[0]), bigOf(s, a[1]))}
		}),
		"(*math/big.Int).Sign": simple(func(e *Engine, s *State, a []Value, at ssa.Instruction, _ *ssa.Function) Value {
			e.bigNil(s, a[0], at, "Sign")
			b := bigOf(s, a[0])
			return Sc{Ite(Eq(b.Mag, BVu(0, bigW)), BVu(0, 64), Ite(b.Neg, BVi(-1, 64), BVu(1, 64)))}
		}),
		"(*math/big.Int).BitLen": simple(func(e *Engine, s *State, a []Value, at ssa.Instruction, _ *ssa.Function) Value {
			e.bigNil(s, a[0], at, "BitLen")
			b := bigOf(s, a[0])
			r := BVu(0, 64)
			for i := 0; i < bigW; i++ {
				r = Ite(Eq(Extract(i, i, b.Mag), BVu(1, 1)), BVu(uint64(i+1), 64), r)
			}
			return Sc{r}
		}),
		"(*math/big.Int).Bytes": simple(func(e *Engine, s *State, a []Value, at ssa.Instruction, _ *ssa.Function) Value {
			e.bigNil(s, a[0], at, "Bytes")
			b := bigOf(s, a[0])
			nb := bigW / 8
			// L = number of significant bytes
			L := BVu(0, 64)
			for i := 0; i < nb; i++ {
				L = Ite(Not(Eq(Extract(8*i+7, 8*i, b.Mag), BVu(0, 8))), BVu(uint64(i+1), 64), L)
			}
			arr := ZeroMem
			for i := 0; i < nb; i++ {
				// byte i (from the most significant end) = (mag >> 8*(L-1-i)) & 0xff
				sh := BinBV("bvmul", ZExt(bigW-64, Sub(Sub(L, Idx(1)), Idx(i))), BVu(8, bigW))
				arr = Store(arr, Idx(i), Extract(7, 0, BinBV("bvlshr", b.Mag, sh)))
			}
			return e.newBytes(s, arr, L, nb)
		}),
		"(*math/big.Int).String": simple(func(e *Engine, s *State, a []Value, at ssa.Instruction, _ *ssa.Function) Value {
			if p, ok := a[0].(Ptr); ok && p.Nil {
				return concStr("<nil>")
			}
			b := bigOf(s, a[0])
			return Str{Kind: 1, Atom: App("bigstr", BVS(64), Ite(b.Neg, BVu(1, 8), BVu(0, 8)), b.Mag)}
		}),
		// ---- go-ethereum/common ----
		"(github.com/ethereum/go-ethereum/common.Address).Hex": simple(func(e *Engine, s *State, a []Value, at ssa.Instruction, _ *ssa.Function) Value {
			return Str{Kind: 1, Atom: App("addrhex", BVS(64), baWord(a[0].(BA)))}
		}),
		"(github.com/ethereum/go-ethereum/common.Address).String": simple(func(e *Engine, s *State, a []Value, at ssa.Instruction, _ *ssa.Function) Value {
			return Str{Kind: 1, Atom: App("addrhex", BVS(64), baWord(a[0].(BA)))}
		}),
		"(github.com/ethereum/go-ethereum/common.Hash).Hex": simple(func(e *Engine, s *State, a []Value, at ssa.Instruction, _ *ssa.Function) Value {
			return Str{Kind: 1, Atom: App("hashhex", BVS(64), baWord(a[0].(BA)))}
		}),
		"(github.com/ethereum/go-ethereum/common.Hash).String": simple(func(e *Engine, s *State, a []Value, at ssa.Instruction, _ *ssa.Function) Value {
			return Str{Kind: 1, Atom: App("hashhex", BVS(64), baWord(a[0].(BA)))}
		}),
		"encoding/hex.EncodeToString": simple(func(e *Engine, s *State, a []Value, at ssa.Instruction, _ *ssa.Function) Value {
			var ts []*Term
			ufArgs(e, s, a[0], &ts)
			return Str{Kind: 1, Atom: App(fmt.Sprintf("hexenc/%d", len(ts)), BVS(64), ts...)}
		}),
	}
	registerCodecs()
}

// baWord packs a fixed byte array into one bit-vector (big endian).
func baWord(b BA) *Term {
	var t *Term
	for i := 0; i < b.N; i++ {
		x := Select(b.A, Idx(i))
		if t == nil {
			t = x
		} else {
			t = Concat(t, x)
		}
	}
	return t
}

func (e *Engine) noteBound(msg string) {
	for _, a := range e.Axioms {
		if a == msg {
			return
		}
	}
	e.Axioms = append(e.Axioms, msg)
}


func u256Limbs(v *Term) Value {
	return Ar{E: []Value{Sc{Extract(63, 0, v)}, Sc{Extract(127, 64, v)}, Sc{Extract(191, 128, v)}, Sc{Extract(255, 192, v)}}}
}

func u256Of(s *State, p Value) *Term {
	ar := s.load(p.(Ptr)).(Ar)
	return Concat(Concat(Concat(ar.E[3].(Sc).T, ar.E[2].(Sc).T), ar.E[1].(Sc).T), ar.E[0].(Sc).T)
}

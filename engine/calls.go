package main

// Calls: dispatch, builtins, harness API (vf*), library intrinsics, opaque packages.

import (
	"fmt"
	"go/types"
	"math/big"
	"strings"

	"golang.org/x/tools/go/ssa"
)

var opaquePrefixes = []string{
	"github.com/rs/zerolog", "log", "github.com/prometheus/", "go.opentelemetry.io/", "context", "time",
	"sync", "sync/atomic", "os", "github.com/ipfs/go-log", "runtime", "io", "bufio", "net/http",
	"github.com/shutter-network/rolling-shutter/rolling-shutter/medley/metricsserver",
}

func (e *Engine) opaquePkg(path string) bool {
	for _, p := range opaquePrefixes {
		if path == p || (strings.HasSuffix(p, "/") && strings.HasPrefix(path, p)) || strings.HasPrefix(path, p+"/") {
			return true
		}
	}
	return false
}

var transparentPrefixes = []string{
	"github.com/shutter-network/rolling-shutter/rolling-shutter",
	"github.com/ethereum/go-ethereum/common",
	"github.com/tendermint/tendermint/proto/tendermint/crypto",
	"github.com/tendermint/tendermint/abci/types",
	"github.com/icza/gog", // tiny generic helpers (If, Ptr, ...)
	"github.com/shutter-network/shutter/shlib/puredkg", // the DKG state machine (plain Go; its shcrypto calls need stubs)
	"io/fs",               // FileMode predicates
	"slices",              // generic slice helpers of the standard library (plain loops)
}

func (e *Engine) transparentPkg(path string) bool {
	if e.opaquePkg(path) {
		return false
	}
	for _, p := range transparentPrefixes {
		if path == p || strings.HasPrefix(path, p+"/") {
			if strings.HasPrefix(path, "github.com/ethereum/go-ethereum/common/") && path != "github.com/ethereum/go-ethereum/common/math" && path != "github.com/ethereum/go-ethereum/common/lru" {
				return false
			}
			return true
		}
	}
	return false
}

func knownGlobal(x *ssa.Global) (Value, bool) {
	return nil, false
}

func (e *Engine) opaqueResult(s *State, t types.Type, tag string) Value {
	switch u := t.Underlying().(type) {
	case *types.Tuple:
		if u.Len() == 0 {
			return nil
		}
		if u.Len() == 1 {
			return e.opaqueResult(s, u.At(0).Type(), tag)
		}
		tu := Tu{}
		for i := 0; i < u.Len(); i++ {
			tu.E = append(tu.E, e.opaqueResult(s, u.At(i).Type(), tag))
		}
		return tu
	case *types.Basic:
		if isBool(t) {
			return Sc{e.freshVar(s, "opaque."+tag, BoolS)}
		}
		if w, _, ok := intWidth(t); ok {
			return Sc{e.freshVar(s, "opaque."+tag, BVS(w))}
		}
		if isString(t) {
			return Str{Kind: 1, Atom: e.freshVar(s, "opaquestr."+tag, BVS(64))}
		}
		return Opq{tag}
	case *types.Interface:
		if types.Identical(t, types.Universe.Lookup("error").Type()) {
			return If{}
		}
		return Opq{tag}
	}
	return Opq{tag}
}

func (e *Engine) call(s *State, f *Frame, x ssa.Value, cc *ssa.CallCommon, at ssa.Instruction) (forks []*State, stop bool) {
	var args []Value
	for _, a := range cc.Args {
		args = append(args, e.val(f, a))
	}
	if cc.IsInvoke() {
		recv := e.val(f, cc.Value)
		return e.invoke(s, f, x, cc, recv, args, at)
	}
	return e.callValue(s, f, x, cc, e.val(f, cc.Value), args, at)
}

func (e *Engine) setRes(f *Frame, x ssa.Value, v Value) {
	if x != nil {
		f.Env[x] = v
	}
}

func (e *Engine) invoke(s *State, f *Frame, x ssa.Value, cc *ssa.CallCommon, recv Value, args []Value, at ssa.Instruction) (forks []*State, stop bool) {
	name := cc.Method.Name()
	switch r := recv.(type) {
	case Opq:
		e.setRes(f, x, e.opaqueResult(s, cc.Signature().Results(), "invoke."+name))
		return nil, false
	case If:
		if r.T == nil {
			e.violation(s, "nil-deref", e.siteOf(f, at)+": method "+name+" on nil interface "+exprText(cc.Value))
			panic(abortPath{})
		}
		if r.T == errType {
			ev := r.V.(ErrV)
			switch name {
			case "Error":
				e.setRes(f, x, Str{Kind: 1, Atom: App("errstr", BVS(64), BVu(uint64(ev.ID), 64))})
			case "Unwrap":
				if ev.Cause == nil {
					e.setRes(f, x, If{})
				} else {
					e.setRes(f, x, ev.Cause)
				}
			default:
				panic(engErr("method " + name + " on opaque error"))
			}
			return nil, false
		}
		if _, isO := r.V.(Opq); isO {
			e.setRes(f, x, e.opaqueResult(s, cc.Signature().Results(), "invoke."+name))
			return nil, false
		}
		fn := e.lookupMethod(r.T, cc.Method)
		if fn == nil {
			panic(engErr(fmt.Sprintf("no method %s on %s", name, r.T)))
		}
		return e.callFn(s, f, x, fn, nil, append([]Value{r.V}, args...), at)
	}
	panic(engErr(fmt.Sprintf("invoke on %T", recv)))
}

func (e *Engine) siteOf(f *Frame, at ssa.Instruction) string {
	if at != nil {
		return e.site(at)
	}
	return f.Fn.Name()
}

func (e *Engine) lookupMethod(t types.Type, m *types.Func) *ssa.Function {
	sel := e.prog.MethodSets.MethodSet(t).Lookup(m.Pkg(), m.Name())
	if sel == nil {
		return nil
	}
	return e.prog.MethodValue(sel)
}

func (e *Engine) callValue(s *State, f *Frame, x ssa.Value, cc *ssa.CallCommon, fv Value, args []Value, at ssa.Instruction) (forks []*State, stop bool) {
	switch c := fv.(type) {
	case *ssa.Builtin:
		return e.builtin(s, f, x, cc, c, args, at)
	case Fn:
		if c.Nil {
			e.violation(s, "nil-deref", e.siteOf(f, at)+": call of nil function")
			panic(abortPath{})
		}
		return e.callFn(s, f, x, c.F, c.Bind, args, at)
	case Opq:
		var rt types.Type = types.NewTuple()
		if cc != nil {
			rt = cc.Signature().Results()
		}
		e.setRes(f, x, e.opaqueResult(s, rt, "callopaque"))
		return nil, false
	case If:
		// deferred invoke
		if cc != nil && cc.IsInvoke() {
			return e.invoke(s, f, x, cc, c, args, at)
		}
	}
	panic(engErr(fmt.Sprintf("call of %T", fv)))
}

func (e *Engine) callFn(s *State, f *Frame, x ssa.Value, fn *ssa.Function, bind []Value, args []Value, at ssa.Instruction) (forks []*State, stop bool) {
	full := fn.String()
	if fn.Origin() != nil {
		full = fn.Origin().String()
	}
	if fn.Synthetic == "package initializer" {
		// other packages are initialised lazily on first access to one of their globals
		return nil, false
	}
	// 1. harness API
	if strings.HasPrefix(fn.Name(), "vf") && e.isHarnessFile(fn) {
		if h, ok := vfTable[baseName(fn.Name())]; ok {
			return h(e, s, f, x, fn, args, at)
		}
	}
	// 2. stubs
	if st, ok := e.stubs[full]; ok {
		e.Stubs[full] = true
		return e.push(s, f, x, st, nil, args)
	}
	// 3. library intrinsics
	if h, ok := intrinsics[full]; ok {
		return h(e, s, f, x, fn, args, at)
	}
	pkgPath := ""
	if fn.Pkg != nil {
		pkgPath = fn.Pkg.Pkg.Path()
	} else if fn.Origin() != nil && fn.Origin().Pkg != nil {
		pkgPath = fn.Origin().Pkg.Pkg.Path()
	} else if recv := fn.Signature.Recv(); recv != nil {
		if n, ok := deref(recv.Type()).(*types.Named); ok && n.Obj().Pkg() != nil {
			pkgPath = n.Obj().Pkg().Path()
		}
	} else if fn.Parent() != nil && fn.Parent().Pkg != nil {
		pkgPath = fn.Parent().Pkg.Pkg.Path()
	}
	// synthetic wrappers ($bound, $thunk) and anonymous functions of transparent parents
	if fn.Synthetic != "" && pkgPath == "" {
		if len(fn.Blocks) > 0 {
			return e.push(s, f, x, fn, bind, args)
		}
	}
	// 4. opaque packages
	if e.opaquePkg(pkgPath) {
		e.setRes(f, x, e.opaqueResult(s, fn.Signature.Results(), fn.Name()))
		return nil, false
	}
	// generated protobuf String() methods are only used for log messages
	if fn.Name() == "String" && fn.Signature.Params().Len() == 0 && strings.HasSuffix(e.fset.Position(fn.Pos()).Filename, ".pb.go") {
		e.setRes(f, x, Str{Kind: 1, Atom: e.freshVar(s, "pbstring", BVS(64))})
		return nil, false
	}
	// 5. transparent packages: execute the body
	if e.transparentPkg(pkgPath) || e.isGeneratedGetter(fn) {
		if len(fn.Blocks) == 0 {
			panic(engErr("no body for " + full))
		}
		if strings.HasPrefix(fn.Name(), "file_") && strings.HasSuffix(fn.Name(), "_init") {
			return nil, false // generated protobuf registration
		}
		return e.push(s, f, x, fn, bind, args)
	}
	if e.initMode {
		e.setRes(f, x, e.opaqueResult(s, fn.Signature.Results(), fn.Name()))
		return nil, false
	}
	// String() methods of external types are only used for log and error messages
	if fn.Name() == "String" && fn.Signature.Params().Len() == 0 && fn.Signature.Results().Len() == 1 && isString(fn.Signature.Results().At(0).Type()) {
		e.setRes(f, x, Str{Kind: 1, Atom: e.freshVar(s, "stringer", BVS(64))})
		return nil, false
	}
	panic(engErr("call of external function without stub or model: " + full))
}

func deref(t types.Type) types.Type {
	if p, ok := t.(*types.Pointer); ok {
		return p.Elem()
	}
	return t
}

func baseName(n string) string {
	if i := strings.Index(n, "["); i >= 0 {
		return n[:i]
	}
	return n
}

func (e *Engine) isHarnessFile(fn *ssa.Function) bool {
	if fn.Origin() != nil {
		fn = fn.Origin()
	}
	p := e.fset.Position(fn.Pos())
	return strings.Contains(p.Filename, "zz_verif_")
}

func (e *Engine) isGeneratedGetter(fn *ssa.Function) bool { return false }

func (e *Engine) push(s *State, f *Frame, x ssa.Value, fn *ssa.Function, bind []Value, args []Value) (forks []*State, stop bool) {
	if len(fn.Blocks) == 0 {
		panic(engErr("no body for " + fn.String()))
	}
	if len(s.Frames) > 200 {
		panic(engErr("call depth exceeded in " + fn.String()))
	}
	nf := &Frame{Fn: fn, Block: fn.Blocks[0], Env: map[ssa.Value]Value{}, Visits: map[int]int{}, Ret: x}
	if len(args) != len(fn.Params) {
		panic(engErr(fmt.Sprintf("arity mismatch calling %s: %d args for %d params", fn, len(args), len(fn.Params))))
	}
	for i, p := range fn.Params {
		nf.Env[p] = args[i]
	}
	for i, fv := range fn.FreeVars {
		nf.Env[fv] = bind[i]
	}
	s.Frames = append(s.Frames, nf)
	return nil, false
}

// ---- builtins ----

func (e *Engine) lenOf(s *State, v Value) *Term {
	switch a := v.(type) {
	case Sl:
		if a.SymLen != nil {
			return a.SymLen
		}
		return Idx(a.Len)
	case BSl:
		return a.Len
	case Str:
		_, ln, _, ok := a.asBytes()
		if !ok {
			panic(engErr("len of atom string"))
		}
		return ln
	case Mp:
		if a.Nil {
			return Idx(0)
		}
		return mapLen(e.mapData(s, a))
	case Ch:
		if a.Nil {
			return Idx(0)
		}
		return Idx(len(s.Objs[a.Obj].(*ChanData).Q))
	case Ptr: // *array
		switch x := s.load(a).(type) {
		case Ar:
			return Idx(len(x.E))
		case BA:
			return Idx(x.N)
		}
	case Ar:
		return Idx(len(a.E))
	case BA:
		return Idx(a.N)
	}
	panic(engErr(fmt.Sprintf("len of %T", v)))
}

func (e *Engine) builtin(s *State, f *Frame, x ssa.Value, cc *ssa.CallCommon, b *ssa.Builtin, args []Value, at ssa.Instruction) (forks []*State, stop bool) {
	switch b.Name() {
	case "len":
		if _, ok := args[0].(Opq); ok {
			e.setRes(f, x, e.opaqueResult(s, types.Typ[types.Int], "len"))
			return nil, false
		}
		e.setRes(f, x, Sc{e.lenOf(s, args[0])})
	case "cap":
		switch a := args[0].(type) {
		case Sl:
			e.setRes(f, x, Sc{Idx(a.Cap)})
		case BSl:
			e.setRes(f, x, Sc{a.Cap})
		default:
			e.setRes(f, x, Sc{e.lenOf(s, a)})
		}
	case "append":
		e.setRes(f, x, e.appendB(s, x.Type(), args[0], args[1]))
	case "copy":
		e.setRes(f, x, Sc{e.copyB(s, args[0], args[1])})
	case "delete":
		e.mapDelete(s, args[0].(Mp), args[1])
	case "print", "println":
	case "min", "max":
		r := args[0].(Sc).T
		_, sg, _ := intWidth(cc.Args[0].Type())
		for _, a := range args[1:] {
			t := a.(Sc).T
			var lt *Term
			if sg {
				lt = Slt(t, r)
			} else {
				lt = Ult(t, r)
			}
			if b.Name() == "max" {
				lt = Not(Or(lt, Eq(t, r)))
			}
			r = Ite(lt, t, r)
		}
		e.setRes(f, x, Sc{r})
	case "recover":
		e.setRes(f, x, If{})
	case "clear":
		if m, ok := args[0].(Mp); ok && !m.Nil {
			s.Objs[m.Obj] = &MapData{}
		}
	case "close":
	default:
		panic(engErr("builtin " + b.Name()))
	}
	return nil, false
}

func (e *Engine) appendB(s *State, rt types.Type, a0, a1 Value) Value {
	if isByteSlice(rt) {
		a := a0.(BSl)
		var b2arr, b2off, b2len *Term
		b2max := 0
		switch b := a1.(type) {
		case BSl:
			if b.Nil {
				return a
			}
			b2arr, b2off, b2len, b2max = s.load(b.Loc).(BA).A, b.Off, b.Len, b.Max
		case Str:
			arr, ln, mx, ok := b.asBytes()
			if !ok {
				panic(engErr("append of atom string"))
			}
			b2arr, b2off, b2len, b2max = arr, Idx(0), ln, mx
		default:
			panic(engErr(fmt.Sprintf("append bytes of %T", a1)))
		}
		// always a fresh backing array (aliasing after append is not modelled)
		arr := ZeroMem
		if !a.Nil {
			src := s.load(a.Loc).(BA).A
			if a.Off.IsConst() && a.Off.Val.Sign() == 0 {
				arr = src
			} else {
				for i := 0; i < a.Max; i++ {
					arr = Store(arr, Idx(i), Select(src, Add(a.Off, Idx(i))))
				}
			}
		}
		for j := 0; j < b2max; j++ {
			jj := Idx(j)
			v := Select(b2arr, Add(b2off, jj))
			at := Add(a.Len, jj)
			if b2len.IsConst() {
				arr = Store(arr, at, v)
			} else {
				arr = Ite(Ult(jj, b2len), Store(arr, at, v), arr)
			}
		}
		nl := Add(a.Len, b2len)
		loc := Ptr{Obj: s.alloc(BA{A: arr, N: -1})}
		return BSl{Loc: loc, Off: Idx(0), Len: nl, Cap: nl, Max: a.Max + b2max}
	}
	a, b2 := a0.(Sl), a1.(Sl)
	el := rt.Underlying().(*types.Slice).Elem()
	n := a.Len + b2.Len
	if b2.Len == 0 {
		if a.Nil && !b2.Nil {
			// append([]T(nil), []T{}...) stays nil in Go
			return a
		}
		return a
	}
	var na Ar
	obj, off, cp := a.Obj, a.Off, a.Cap
	if a.Nil || n > a.Cap {
		cp = n*2 + 1
		na = Ar{make([]Value, cp)}
		for i := range na.E {
			na.E[i] = zero(el)
		}
		if !a.Nil {
			old := s.Objs[a.Obj].(Ar)
			copy(na.E, old.E[a.Off:a.Off+a.Len])
		}
		obj, off = s.alloc(na), 0
	} else {
		old := s.Objs[obj].(Ar)
		na = Ar{append([]Value(nil), old.E...)}
	}
	src := s.Objs[b2.Obj].(Ar)
	for i := 0; i < b2.Len; i++ {
		na.E[off+a.Len+i] = src.E[b2.Off+i]
	}
	s.Objs[obj] = na
	return Sl{Obj: obj, Off: off, Len: n, Cap: cp}
}

func (e *Engine) copyB(s *State, d0, s0 Value) *Term {
	switch d := d0.(type) {
	case BSl:
		var sarr, soff, slen *Term
		smax := 0
		switch b := s0.(type) {
		case BSl:
			if b.Nil {
				return Idx(0)
			}
			sarr, soff, slen, smax = s.load(b.Loc).(BA).A, b.Off, b.Len, b.Max
		case Str:
			arr, ln, mx, ok := b.asBytes()
			if !ok {
				panic(engErr("copy from atom string"))
			}
			sarr, soff, slen, smax = arr, Idx(0), ln, mx
		}
		if d.Nil {
			return Idx(0)
		}
		n := Ite(Ult(d.Len, slen), d.Len, slen)
		m := d.Max
		if smax < m {
			m = smax
		}
		dba := s.load(d.Loc).(BA)
		arr := dba.A
		for i := 0; i < m; i++ {
			ii := Idx(i)
			at := Add(d.Off, ii)
			v := Select(sarr, Add(soff, ii))
			c := Ult(ii, n)
			if c == True {
				arr = Store(arr, at, v)
			} else if c != False {
				arr = Store(arr, at, Ite(c, v, Select(arr, at)))
			}
		}
		s.store(d.Loc, BA{A: arr, N: dba.N})
		return n
	case Sl:
		b := s0.(Sl)
		n := d.Len
		if b.Len < n {
			n = b.Len
		}
		if n == 0 {
			return Idx(0)
		}
		src := s.Objs[b.Obj].(Ar)
		tmp := append([]Value(nil), src.E[b.Off:b.Off+n]...)
		dst := s.Objs[d.Obj].(Ar)
		na := Ar{append([]Value(nil), dst.E...)}
		copy(na.E[d.Off:], tmp)
		s.Objs[d.Obj] = na
		return Idx(n)
	}
	panic(engErr(fmt.Sprintf("copy to %T", d0)))
}

// ---- harness API ----

type handler func(e *Engine, s *State, f *Frame, x ssa.Value, fn *ssa.Function, args []Value, at ssa.Instruction) ([]*State, bool)

var vfTable map[string]handler
var intrinsics map[string]handler

func cstr(v Value) string {
	st, ok := v.(Str)
	if !ok || st.Kind != 0 {
		panic(engErr("harness API needs a constant string"))
	}
	return st.Conc
}

func cint(v Value) int {
	t := v.(Sc).T
	if !t.IsConst() {
		panic(engErr("harness API needs a constant int"))
	}
	return int(signed(t.Val, t.S.W).Int64())
}

// nondetBytes creates a fresh byte array variable and registers selects for model extraction.
func (e *Engine) nondetArr(s *State, name string, n int) (*Term, string) {
	k := s.Names[name]
	s.Names[name] = k + 1
	full := fmt.Sprintf("%s#%d", name, k)
	if n > 0 && n <= 64 && !e.rawArrays {
		// fixed-size byte string: one wide bit-vector variable
		w := Var(full, BVS(8*n))
		s.Extra = append(s.Extra, w)
		s.ExtraTag = append(s.ExtraTag, fmt.Sprintf("w:%s:%d", full, n))
		return BVArr(w, n), full
	}
	v := Var(full, MemS)
	for i := 0; i < n; i++ {
		s.Extra = append(s.Extra, Select(v, Idx(i)))
		s.ExtraTag = append(s.ExtraTag, fmt.Sprintf("b:%s:%d", full, i))
	}
	return v, full
}

// nondetOf builds an arbitrary value of type t (no pointers/maps/slices inside: those are zero).
func (e *Engine) nondetOf(s *State, name string, t types.Type) Value {
	if isBigInt(t) {
		return Big{Neg: e.freshVar(s, name+".neg", BoolS), Mag: e.freshVar(s, name+".mag", BVS(bigW))}
	}
	switch u := t.Underlying().(type) {
	case *types.Basic:
		if isBool(t) {
			return Sc{e.freshVar(s, name, BoolS)}
		}
		if w, _, ok := intWidth(t); ok {
			return Sc{e.freshVar(s, name, BVS(w))}
		}
		if isString(t) {
			return Str{Kind: 1, Atom: e.freshVar(s, name, BVS(64))}
		}
	case *types.Struct:
		st := St{make([]Value, u.NumFields())}
		for i := range st.F {
			st.F[i] = e.nondetOf(s, name+"."+u.Field(i).Name(), u.Field(i).Type())
		}
		return st
	case *types.Array:
		if isByte(u.Elem()) {
			a, _ := e.nondetArr(s, name, int(u.Len()))
			return BA{A: a, N: int(u.Len())}
		}
		ar := Ar{make([]Value, u.Len())}
		for i := range ar.E {
			ar.E[i] = e.nondetOf(s, fmt.Sprintf("%s.%d", name, i), u.Elem())
		}
		return ar
	}
	return zero(t)
}

func ufArgs(e *Engine, s *State, v Value, out *[]*Term) {
	switch a := v.(type) {
	case Sc:
		*out = append(*out, a.T)
	case If:
		if a.T == nil {
			*out = append(*out, BVu(0, 8))
			return
		}
		ufArgs(e, s, a.V, out)
	case BA:
		for i := 0; i < a.N; i++ {
			*out = append(*out, Select(a.A, Idx(i)))
		}
	case BSl:
		if a.Nil {
			*out = append(*out, Idx(0))
			return
		}
		if !a.Len.IsConst() {
			// symbolic length: length plus Max bytes masked to zero beyond the length
			*out = append(*out, a.Len)
			arr := s.load(a.Loc).(BA).A
			for i := 0; i < a.Max; i++ {
				*out = append(*out, Ite(Ult(Idx(i), a.Len), Select(arr, Add(a.Off, Idx(i))), BVu(0, 8)))
			}
			return
		}
		n := int(a.Len.Val.Int64())
		*out = append(*out, a.Len)
		arr := s.load(a.Loc).(BA).A
		for i := 0; i < n; i++ {
			*out = append(*out, Select(arr, Add(a.Off, Idx(i))))
		}
	case Str:
		if a.Kind == 2 {
			*out = append(*out, a.Len)
			for i := 0; i < a.Max; i++ {
				*out = append(*out, Ite(Ult(Idx(i), a.Len), Select(a.A, Idx(i)), BVu(0, 8)))
			}
			return
		}
		*out = append(*out, strAtom(a))
	case St:
		for _, f := range a.F {
			ufArgs(e, s, f, out)
		}
	case Ar:
		for _, f := range a.E {
			ufArgs(e, s, f, out)
		}
	case Big:
		*out = append(*out, Ite(a.Neg, BVu(1, 8), BVu(0, 8)), a.Mag)
	case Ptr:
		if a.Nil {
			*out = append(*out, BVu(0, 8))
			return
		}
		ufArgs(e, s, s.load(a), out)
	case ErrV:
		*out = append(*out, BVu(uint64(a.ID), 64))
	case Sl:
		*out = append(*out, Idx(a.Len))
		if !a.Nil {
			ar := s.Objs[a.Obj].(Ar)
			for i := 0; i < a.Len; i++ {
				ufArgs(e, s, ar.E[a.Off+i], out)
			}
		}
	default:
		panic(engErr(fmt.Sprintf("unsupported UF argument %T", v)))
	}
}

// uf builds an uninterpreted function application; args come as a []any slice value.
func (e *Engine) uf(s *State, name string, ret Sort, variadic Value) *Term {
	var ts []*Term
	if sl, ok := variadic.(Sl); ok && !sl.Nil {
		ar := s.Objs[sl.Obj].(Ar)
		for i := 0; i < sl.Len; i++ {
			ufArgs(e, s, ar.E[sl.Off+i], &ts)
		}
	}
	var sig []string
	for _, t := range ts {
		if t.S.K == 0 {
			sig = append(sig, "b")
		} else {
			sig = append(sig, fmt.Sprint(t.S.W))
		}
	}
	fname := name + "/" + strings.Join(sig, ".")
	app := App(fname, ret, ts...)
	s.Extra = append(s.Extra, app)
	s.ExtraTag = append(s.ExtraTag, "u:"+name)
	for i, t := range ts {
		s.Extra = append(s.Extra, t)
		s.ExtraTag = append(s.ExtraTag, fmt.Sprintf("a:%d", i))
	}
	return app
}

func init() {
	scalar := func(w int) handler {
		return func(e *Engine, s *State, f *Frame, x ssa.Value, fn *ssa.Function, args []Value, at ssa.Instruction) ([]*State, bool) {
			so := BVS(w)
			if w == 0 {
				so = BoolS
			}
			e.setRes(f, x, Sc{e.freshVar(s, cstr(args[0]), so)})
			return nil, false
		}
	}
	vfTable = map[string]handler{
		"vfU64": scalar(64), "vfI64": scalar(64), "vfInt": scalar(64), "vfU32": scalar(32), "vfI32": scalar(32),
		"vfU8": scalar(8), "vfBool": scalar(0),
		"vfBytesN": func(e *Engine, s *State, f *Frame, x ssa.Value, fn *ssa.Function, args []Value, at ssa.Instruction) ([]*State, bool) {
			n := cint(args[1])
			a, _ := e.nondetArr(s, cstr(args[0]), n)
			loc := Ptr{Obj: s.alloc(BA{A: a, N: -1})}
			e.setRes(f, x, BSl{Loc: loc, Off: Idx(0), Len: Idx(n), Cap: Idx(n), Max: n})
			return nil, false
		},
		"vfBytes": func(e *Engine, s *State, f *Frame, x ssa.Value, fn *ssa.Function, args []Value, at ssa.Instruction) ([]*State, bool) {
			n := cint(args[1])
			name := cstr(args[0])
			e.rawArrays = true
			a, _ := e.nondetArr(s, name, n)
			e.rawArrays = false
			ln := e.freshVar(s, name+".len", BVS(64))
			e.addPC(s, Ule(ln, Idx(n)))
			loc := Ptr{Obj: s.alloc(BA{A: a, N: -1})}
			e.setRes(f, x, BSl{Loc: loc, Off: Idx(0), Len: ln, Cap: ln, Max: n})
			return nil, false
		},
		"vfAtom": func(e *Engine, s *State, f *Frame, x ssa.Value, fn *ssa.Function, args []Value, at ssa.Instruction) ([]*State, bool) {
			e.setRes(f, x, Str{Kind: 1, Atom: e.freshVar(s, cstr(args[0]), BVS(64))})
			return nil, false
		},
		"vfAny": func(e *Engine, s *State, f *Frame, x ssa.Value, fn *ssa.Function, args []Value, at ssa.Instruction) ([]*State, bool) {
			e.setRes(f, x, e.nondetOf(s, cstr(args[0]), fn.Signature.Results().At(0).Type()))
			return nil, false
		},
		"vfBig": func(e *Engine, s *State, f *Frame, x ssa.Value, fn *ssa.Function, args []Value, at ssa.Instruction) ([]*State, bool) {
			name := cstr(args[0])
			b := Big{Neg: e.freshVar(s, name+".neg", BoolS), Mag: e.freshVar(s, name+".mag", BVS(bigW))}
			// canonical form: zero is not negative
			e.addPC(s, Implies(Eq(b.Mag, BVu(0, bigW)), Not(b.Neg)))
			e.setRes(f, x, Ptr{Obj: s.alloc(b)})
			return nil, false
		},
		"vfLen": func(e *Engine, s *State, f *Frame, x ssa.Value, fn *ssa.Function, args []Value, at ssa.Instruction) ([]*State, bool) {
			name := cstr(args[0])
			n := cint(args[1])
			v := e.freshVar(s, name, BVS(64))
			e.addPC(s, Ule(v, Idx(n)))
			var alts []alt
			for i := 0; i <= n; i++ {
				i := i
				alts = append(alts, alt{Eq(v, Idx(i)), func(ns *State, nf *Frame) { e.setRes(nf, x, Sc{Idx(i)}) }, fmt.Sprintf("%s=%d", name, i)})
			}
			return e.forkOn(s, f, alts)
		},
		"vfAssume": func(e *Engine, s *State, f *Frame, x ssa.Value, fn *ssa.Function, args []Value, at ssa.Instruction) ([]*State, bool) {
			c := args[0].(Sc).T
			e.Assumes++
			if !e.feasible(s, c) {
				panic(abortPath{})
			}
			e.addPC(s, c)
			return nil, false
		},
		"vfAxiom": func(e *Engine, s *State, f *Frame, x ssa.Value, fn *ssa.Function, args []Value, at ssa.Instruction) ([]*State, bool) {
			c := args[0].(Sc).T
			if !e.feasible(s, c) {
				panic(abortPath{})
			}
			e.addPC(s, c)
			return nil, false
		},
		"vfAssert": func(e *Engine, s *State, f *Frame, x ssa.Value, fn *ssa.Function, args []Value, at ssa.Instruction) ([]*State, bool) {
			c := args[0].(Sc).T
			label := cstr(args[1])
			if !e.oblige(s, Not(c), "assert", label) {
				if !e.feasible(s, c) {
					panic(abortPath{})
				}
			}
			e.addPC(s, c)
			return nil, false
		},
		"vfOpaqueSlice": func(e *Engine, s *State, f *Frame, x ssa.Value, fn *ssa.Function, args []Value, at ssa.Instruction) ([]*State, bool) {
			e.setRes(f, x, Sl{Obj: s.alloc(Ar{}), SymLen: args[0].(Sc).T})
			return nil, false
		},
		"vfPutIf": func(e *Engine, s *State, f *Frame, x ssa.Value, fn *ssa.Function, args []Value, at ssa.Instruction) ([]*State, bool) {
			c := args[0].(Sc).T
			m := args[1].(If).V.(Mp)
			k, v := args[2].(If).V, args[3].(If).V
			e.mapStoreIf(s, m, k, v, c, "vfPutIf")
			return nil, false
		},
		"vfTagged": func(e *Engine, s *State, f *Frame, x ssa.Value, fn *ssa.Function, args []Value, at ssa.Instruction) ([]*State, bool) {
			// *T whose every scalar leaf equals the tag: an abstract crypto object identified by tag
			pt := fn.Signature.Results().At(0).Type().(*types.Pointer)
			e.setRes(f, x, Ptr{Obj: s.alloc(taggedOf(pt.Elem(), args[0].(Sc).T))})
			return nil, false
		},
		"vfTagOf": func(e *Engine, s *State, f *Frame, x ssa.Value, fn *ssa.Function, args []Value, at ssa.Instruction) ([]*State, bool) {
			v := args[0].(If).V
			if p, ok := v.(Ptr); ok {
				if p.Nil {
					e.setRes(f, x, Sc{BVu(0, 64)})
					return nil, false
				}
				v = s.load(p)
			}
			t := firstLeaf(v)
			if t == nil {
				panic(engErr("vfTagOf: no scalar leaf"))
			}
			e.setRes(f, x, Sc{Resize(t, 64, false)})
			return nil, false
		},
		"vfParam": func(e *Engine, s *State, f *Frame, x ssa.Value, fn *ssa.Function, args []Value, at ssa.Instruction) ([]*State, bool) {
			n := cint(args[1])
			if v, ok := e.params[cstr(args[0])]; ok {
				n = v
			}
			e.setRes(f, x, Sc{Idx(n)})
			return nil, false
		},
		"vfReach": func(e *Engine, s *State, f *Frame, x ssa.Value, fn *ssa.Function, args []Value, at ssa.Instruction) ([]*State, bool) {
			e.Reached[cstr(args[0])] = true
			return nil, false
		},
		"vfUnwind": func(e *Engine, s *State, f *Frame, x ssa.Value, fn *ssa.Function, args []Value, at ssa.Instruction) ([]*State, bool) {
			s.Unwind = cint(args[0])
			return nil, false
		},
		"vfAllocBound": func(e *Engine, s *State, f *Frame, x ssa.Value, fn *ssa.Function, args []Value, at ssa.Instruction) ([]*State, bool) {
			s.Alloc = int64(cint(args[0]))
			return nil, false
		},
		"vfPanicOK": func(e *Engine, s *State, f *Frame, x ssa.Value, fn *ssa.Function, args []Value, at ssa.Instruction) ([]*State, bool) {
			s.PanicOK = args[0].(Sc).T == True
			return nil, false
		},
		"vfErr": func(e *Engine, s *State, f *Frame, x ssa.Value, fn *ssa.Function, args []Value, at ssa.Instruction) ([]*State, bool) {
			e.setRes(f, x, e.newErr(s, cstr(args[0]), nil))
			return nil, false
		},
		"vfUFBool": func(e *Engine, s *State, f *Frame, x ssa.Value, fn *ssa.Function, args []Value, at ssa.Instruction) ([]*State, bool) {
			e.setRes(f, x, Sc{e.uf(s, cstr(args[0]), BoolS, args[1])})
			return nil, false
		},
		"vfUFU64": func(e *Engine, s *State, f *Frame, x ssa.Value, fn *ssa.Function, args []Value, at ssa.Instruction) ([]*State, bool) {
			e.setRes(f, x, Sc{e.uf(s, cstr(args[0]), BVS(64), args[1])})
			return nil, false
		},
		"vfUFAtom": func(e *Engine, s *State, f *Frame, x ssa.Value, fn *ssa.Function, args []Value, at ssa.Instruction) ([]*State, bool) {
			e.setRes(f, x, Str{Kind: 1, Atom: e.uf(s, cstr(args[0]), BVS(64), args[1])})
			return nil, false
		},
		"vfUFBytesN": func(e *Engine, s *State, f *Frame, x ssa.Value, fn *ssa.Function, args []Value, at ssa.Instruction) ([]*State, bool) {
			n := cint(args[1])
			t := e.uf(s, cstr(args[0]), BVS(8*n), args[2])
			arr := ZeroMem
			for i := 0; i < n; i++ {
				arr = Store(arr, Idx(i), Extract(8*(n-i)-1, 8*(n-i-1), t))
			}
			loc := Ptr{Obj: s.alloc(BA{A: arr, N: -1})}
			e.setRes(f, x, BSl{Loc: loc, Off: Idx(0), Len: Idx(n), Cap: Idx(n), Max: n})
			return nil, false
		},
		"vfDeepEq": func(e *Engine, s *State, f *Frame, x ssa.Value, fn *ssa.Function, args []Value, at ssa.Instruction) ([]*State, bool) {
			e.setRes(f, x, Sc{e.deepEq(s, args[0], args[1], false, 0)})
			return nil, false
		},
		"vfDeepCopy": func(e *Engine, s *State, f *Frame, x ssa.Value, fn *ssa.Function, args []Value, at ssa.Instruction) ([]*State, bool) {
			e.setRes(f, x, e.deepCopy(s, args[0], map[int]int{}))
			return nil, false
		},
		"vfSwap": func(e *Engine, s *State, f *Frame, x ssa.Value, fn *ssa.Function, args []Value, at ssa.Instruction) ([]*State, bool) {
			sl := args[0].(If).V.(Sl)
			i, j := cint(args[1]), cint(args[2])
			ar := s.Objs[sl.Obj].(Ar)
			na := Ar{append([]Value(nil), ar.E...)}
			na.E[sl.Off+i], na.E[sl.Off+j] = na.E[sl.Off+j], na.E[sl.Off+i]
			s.Objs[sl.Obj] = na
			return nil, false
		},
		"vfIte": func(e *Engine, s *State, f *Frame, x ssa.Value, fn *ssa.Function, args []Value, at ssa.Instruction) ([]*State, bool) {
			v, ok := iteVal(args[0].(Sc).T, args[1], args[2])
			if !ok {
				panic(engErr("vfIte on unmergeable values"))
			}
			e.setRes(f, x, v)
			return nil, false
		},
		"vfChanLen": func(e *Engine, s *State, f *Frame, x ssa.Value, fn *ssa.Function, args []Value, at ssa.Instruction) ([]*State, bool) {
			e.setRes(f, x, Sc{e.lenOf(s, args[0].(If).V)})
			return nil, false
		},
		"vfIsOpaque": func(e *Engine, s *State, f *Frame, x ssa.Value, fn *ssa.Function, args []Value, at ssa.Instruction) ([]*State, bool) {
			_, ok := args[0].(Opq)
			e.setRes(f, x, Sc{Bool(ok)})
			return nil, false
		},
		"vfErrIs": func(e *Engine, s *State, f *Frame, x ssa.Value, fn *ssa.Function, args []Value, at ssa.Instruction) ([]*State, bool) {
			e.setRes(f, x, Sc{Bool(errIs(args[0], args[1]))})
			return nil, false
		},
	}
}

func errIs(err, target Value) bool {
	t, ok := target.(If)
	if !ok || t.T == nil {
		ei, ok2 := err.(If)
		return ok2 && ei.T == nil
	}
	for {
		ei, ok := err.(If)
		if !ok || ei.T == nil {
			return false
		}
		if eqValSafe(ei, t) == True {
			return true
		}
		ev, ok := ei.V.(ErrV)
		if !ok || ev.Cause == nil {
			return false
		}
		err = ev.Cause
	}
}

// ---- deep equality / deep copy ----

func (e *Engine) deepEq(s *State, a, b Value, reflectSem bool, depth int) *Term {
	if depth > 40 {
		panic(engErr("deepEq recursion"))
	}
	switch x := a.(type) {
	case Sc, BA, Str, Big:
		return eqVal(a, b)
	case St:
		y := b.(St)
		var cs []*Term
		for i := range x.F {
			cs = append(cs, e.deepEq(s, x.F[i], y.F[i], reflectSem, depth+1))
		}
		return And(cs...)
	case Ar:
		y := b.(Ar)
		var cs []*Term
		for i := range x.E {
			cs = append(cs, e.deepEq(s, x.E[i], y.E[i], reflectSem, depth+1))
		}
		return And(cs...)
	case Ptr:
		y, ok := b.(Ptr)
		if !ok {
			return False
		}
		if x.Nil || y.Nil {
			return Bool(x.Nil == y.Nil)
		}
		if eqVal(x, y) == True {
			return True
		}
		return e.deepEq(s, s.load(x), s.load(y), reflectSem, depth+1)
	case Sl:
		y := b.(Sl)
		if reflectSem && x.Nil != y.Nil {
			return False
		}
		if x.Len != y.Len {
			return False
		}
		if x.Len == 0 {
			return True
		}
		xa, ya := s.Objs[x.Obj].(Ar), s.Objs[y.Obj].(Ar)
		var cs []*Term
		for i := 0; i < x.Len; i++ {
			cs = append(cs, e.deepEq(s, xa.E[x.Off+i], ya.E[y.Off+i], reflectSem, depth+1))
		}
		return And(cs...)
	case BSl:
		y := b.(BSl)
		if reflectSem && x.Nil != y.Nil {
			return False
		}
		if x.Nil && y.Nil {
			return True
		}
		if x.Nil {
			return Eq(y.Len, Idx(0))
		}
		if y.Nil {
			return Eq(x.Len, Idx(0))
		}
		return bytesEqTerm(s.load(x.Loc).(BA).A, x.Off, x.Len, x.Max, s.load(y.Loc).(BA).A, y.Off, y.Len, y.Max)
	case Mp:
		y := b.(Mp)
		if x.Nil || y.Nil {
			if reflectSem {
				return Bool(x.Nil == y.Nil)
			}
			var md *MapData
			if !x.Nil {
				md = e.mapData(s, x)
			} else if !y.Nil {
				md = e.mapData(s, y)
			} else {
				return True
			}
			return Eq(mapLen(md), Idx(0))
		}
		if x.Obj == y.Obj {
			return True
		}
		mx, my := e.mapData(s, x), e.mapData(s, y)
		sub := func(p, q *MapData) *Term {
			var cs []*Term
			for _, sl := range p.Slots {
				if sl.Occ == False {
					continue
				}
				// exists slot in q with equal key and deep-equal value
				var any []*Term
				for _, t := range q.Slots {
					if t.Occ == False {
						continue
					}
					k := And(t.Occ, eqVal(sl.K, t.K))
					if k == False {
						continue
					}
					any = append(any, And(k, e.deepEq(s, sl.V, t.V, reflectSem, depth+1)))
				}
				cs = append(cs, Implies(sl.Occ, Or(any...)))
			}
			return And(cs...)
		}
		return And(sub(mx, my), sub(my, mx))
	case If:
		y, ok := b.(If)
		if !ok {
			return False
		}
		if x.T == nil || y.T == nil {
			return Bool((x.T == nil) == (y.T == nil))
		}
		if !types.Identical(x.T, y.T) {
			return False
		}
		return e.deepEq(s, x.V, y.V, reflectSem, depth+1)
	case ErrV:
		return Bool(x.ID == b.(ErrV).ID)
	case Opq:
		return True
	case Fn:
		y := b.(Fn)
		return Bool(x.Nil && y.Nil)
	case Ch:
		return eqVal(a, b)
	case Tu:
		y := b.(Tu)
		var cs []*Term
		for i := range x.E {
			cs = append(cs, e.deepEq(s, x.E[i], y.E[i], reflectSem, depth+1))
		}
		return And(cs...)
	case nil:
		return Bool(b == nil)
	}
	panic(engErr(fmt.Sprintf("deepEq %T", a)))
}

func (e *Engine) deepCopy(s *State, v Value, seen map[int]int) Value {
	switch x := v.(type) {
	case St:
		f := make([]Value, len(x.F))
		for i := range f {
			f[i] = e.deepCopy(s, x.F[i], seen)
		}
		return St{f}
	case Ar:
		f := make([]Value, len(x.E))
		for i := range f {
			f[i] = e.deepCopy(s, x.E[i], seen)
		}
		return Ar{f}
	case Ptr:
		if x.Nil {
			return x
		}
		if n, ok := seen[x.Obj]; ok {
			return Ptr{Obj: n, Path: x.Path}
		}
		id := s.alloc(nil)
		seen[x.Obj] = id
		s.Objs[id] = e.deepCopy(s, s.Objs[x.Obj], seen)
		return Ptr{Obj: id, Path: x.Path}
	case Sl:
		if x.Nil {
			return x
		}
		if n, ok := seen[x.Obj]; ok {
			return Sl{Obj: n, Off: x.Off, Len: x.Len, Cap: x.Cap}
		}
		id := s.alloc(nil)
		seen[x.Obj] = id
		s.Objs[id] = e.deepCopy(s, s.Objs[x.Obj], seen)
		return Sl{Obj: id, Off: x.Off, Len: x.Len, Cap: x.Cap}
	case BSl:
		if x.Nil {
			return x
		}
		p := e.deepCopy(s, x.Loc, seen).(Ptr)
		return BSl{Loc: p, Off: x.Off, Len: x.Len, Cap: x.Cap, Max: x.Max}
	case Mp:
		if x.Nil {
			return x
		}
		if n, ok := seen[x.Obj]; ok {
			return Mp{Obj: n}
		}
		id := s.alloc(nil)
		seen[x.Obj] = id
		md := e.mapData(s, x)
		nd := &MapData{}
		for _, sl := range md.Slots {
			nd.Slots = append(nd.Slots, MapSlot{Occ: sl.Occ, K: e.deepCopy(s, sl.K, seen), V: e.deepCopy(s, sl.V, seen)})
		}
		s.Objs[id] = nd
		return Mp{Obj: id}
	case If:
		if x.T == nil {
			return x
		}
		return If{T: x.T, V: e.deepCopy(s, x.V, seen)}
	case *MapData, *ChanData:
		panic(engErr("deepCopy of raw map data"))
	}
	return v
}

var _ = big.NewInt

func taggedOf(t types.Type, tag *Term) Value {
	switch u := t.Underlying().(type) {
	case *types.Basic:
		if w, _, ok := intWidth(t); ok {
			return Sc{Resize(tag, w, false)}
		}
	case *types.Struct:
		st := St{make([]Value, u.NumFields())}
		for i := range st.F {
			st.F[i] = taggedOf(u.Field(i).Type(), tag)
		}
		return st
	case *types.Array:
		if isByte(u.Elem()) {
			arr := ZeroMem
			for i := 0; i < int(u.Len()); i++ {
				arr = Store(arr, Idx(i), Extract(7, 0, tag))
			}
			return BA{A: arr, N: int(u.Len())}
		}
		ar := Ar{make([]Value, u.Len())}
		for i := range ar.E {
			ar.E[i] = taggedOf(u.Elem(), tag)
		}
		return ar
	}
	return zero(t)
}

func firstLeaf(v Value) *Term {
	switch x := v.(type) {
	case Sc:
		if x.T.S.K == 1 {
			return x.T
		}
	case St:
		for _, f := range x.F {
			if t := firstLeaf(f); t != nil {
				return t
			}
		}
	case Ar:
		for _, f := range x.E {
			if t := firstLeaf(f); t != nil {
				return t
			}
		}
	}
	return nil
}

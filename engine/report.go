package main

import (
	"encoding/json"
	"fmt"
	"os"
	"path/filepath"
	"sort"
	"strings"
)

func matchKnown(known []KnownFinding, prop string, f Finding) *KnownFinding {
	for i := range known {
		k := &known[i]
		if k.Status != "known" {
			continue
		}
		if k.Property == prop && k.Kind == f.Kind && k.Site == f.Where && (k.Harness == "" || k.Harness == f.Harness) {
			return k
		}
	}
	return nil
}

func report(cfg CheckCfg, tier string, results []HarnessResult, known []KnownFinding, loadErrs []string, loadS, wallS float64) int {
	id := cfg.Property
	seed := 0
	fmt.Sscan(os.Getenv("VERIF_SEED"), &seed)
	var oblig, dis, paths, pathsSym, queries, sat int
	var solverS float64
	var samples []interface{}
	funcs := map[string]int{}
	var harnesses []map[string]interface{}
	var incon, faults []string
	violations := 0
	knownHits := 0
	var lines []string
	stubs := map[string]bool{}
	notes := map[string]bool{}
	winners := map[string]int{}
	os.MkdirAll(filepath.Join(verifDir, "replays"), 0o755)
	// remove stale replays of this property
	if old, _ := filepath.Glob(filepath.Join(verifDir, "replays", id+"-*.json")); old != nil {
		for _, o := range old {
			os.Remove(o)
		}
	}
	ran := 0
	for _, r := range results {
		if r.SkippedTier {
			continue
		}
		ran++
		oblig += r.Oblig
		dis += r.Discharged
		paths += r.Paths
		pathsSym += r.PathsSym
		queries += r.Queries
		solverS += r.SolverS
		sat += r.Sat
		for k, v := range r.Functions {
			funcs[k] += v
		}
		for _, s := range r.Stubs {
			stubs[s] = true
		}
		for _, n := range r.Notes {
			notes[n] = true
		}
		for k, v := range r.ByWinner {
			winners[k] += v
		}
		for i, s := range r.Samples {
			if i < 2 {
				samples = append(samples, map[string]string{"harness": r.Name, "obligation": s})
			}
		}
		h := map[string]interface{}{"name": r.Name, "what": r.What, "package": r.Pkg, "paths": r.Paths, "paths_with_symbolic_branch": r.PathsSym,
			"obligations": r.Oblig, "discharged_unsat": r.Discharged, "sat": r.Sat, "solver_queries": r.Queries, "solver_s": round2(r.SolverS),
			"wall_s": round2(r.WallS), "unwind": r.Unwind, "bounds": r.Bounds, "reach_labels_proven": r.Reached, "assumes": r.Assumes}
		if len(r.Unreached) > 0 {
			h["reach_labels_unreached"] = r.Unreached
		}
		if len(r.Incon) > 0 {
			h["inconclusive"] = r.Incon
		}
		if len(r.Faults) > 0 {
			h["engine_faults"] = r.Faults
		}
		if len(r.SolverErrs) > 0 {
			h["solver_errors_nonfatal"] = r.SolverErrs
		}
		harnesses = append(harnesses, h)
		for _, u := range r.Unreached {
			incon = append(incon, r.Name+": reach label not reached (vacuity guard): "+u)
		}
		for _, i := range r.Incon {
			incon = append(incon, r.Name+": "+i)
		}
		for _, i := range r.Faults {
			faults = append(faults, r.Name+": "+i)
		}
		for _, d := range r.Disagree {
			faults = append(faults, r.Name+": solver disagreement: "+d)
		}
		for n, f := range r.Findings {
			if k := matchKnown(known, id, f); k != nil {
				knownHits++
				lines = append(lines, fmt.Sprintf("KNOWN-FINDING: property=%s %s [%s %s @ %s]", id, k.What, f.Harness, f.Kind, f.Where))
				continue
			}
			path := filepath.Join(verifDir, "replays", fmt.Sprintf("%s-%s-%d.json", id, r.Name, n))
			// candidates: the first counterexample and those of other paths, least lenient first
			cands := append([]Finding{f}, f.Alts...)
			sort.SliceStable(cands, func(i, j int) bool { return cands[i].Lenient < cands[j].Lenient })
			rep := ""
			for ci, c := range cands {
				out := map[string]interface{}{"property": id, "harness": r.Name, "package": r.Pkg, "kind": c.Kind, "site": c.Where, "model": c.Model, "trace": c.Trace}
				b, _ := json.MarshalIndent(out, "", " ")
				os.WriteFile(path, b, 0o644)
				rep = replayFinding(cfg, r, c, path)
				if rep == "reproduced" || rep == "unreplayed" {
					f = c
					break
				}
				if ci+1 < len(cands) {
					fmt.Fprintf(os.Stderr, "replay of %s @ %s: candidate %d of %d did not reproduce (%s), trying the next\n", c.Kind, c.Where, ci+1, len(cands), rep)
				}
			}
			switch {
			case rep == "reproduced" || rep == "unreplayed":
				violations++
				lines = append(lines, fmt.Sprintf("VIOLATION property=%s replay=%s", id, path))
				lines = append(lines, fmt.Sprintf("  harness=%s kind=%s site=%q replay=%s", r.Name, f.Kind, f.Where, rep))
			default:
				faults = append(faults, fmt.Sprintf("%s: counterexample for %s @ %s did not reproduce natively (%s, %d candidates tried): model %s", r.Name, f.Kind, f.Where, rep, len(cands), path))
			}
			samples = append(samples, map[string]interface{}{"harness": r.Name, "violation": f.Kind + " @ " + f.Where, "model": f.Model})
		}
	}
	for _, le := range loadErrs {
		faults = append(faults, "load: "+le)
	}
	if ran == 0 && len(loadErrs) == 0 {
		faults = append(faults, "no harness ran")
	}
	if len(samples) == 0 {
		samples = append(samples, "no obligation needed a solver call")
	}
	expl := cfg.Explanation
	if expl == "" {
		expl = "bounded symbolic execution of the real Go code (go/ssa -> SMT-LIB2, own encoder), every obligation decided by z3/cvc5"
	}
	var fnList []string
	for k := range funcs {
		fnList = append(fnList, k)
	}
	sort.Strings(fnList)
	fenc := map[string]int{}
	for _, k := range fnList {
		if strings.Contains(k, "rolling-shutter") || strings.Contains(k, "go-ethereum") {
			fenc[shortFn(k)] = funcs[k]
		}
	}
	var stubList, noteList []string
	for k := range stubs {
		stubList = append(stubList, shortFn(k))
	}
	sort.Strings(stubList)
	for k := range notes {
		noteList = append(noteList, k)
	}
	sort.Strings(noteList)
	assumptions := append([]string(nil), cfg.Assumptions...)
	for _, s := range stubList {
		assumptions = append(assumptions, "stub (contract in harness source): "+s)
	}
	assumptions = append(assumptions, noteList...)
	for _, o := range cfg.Outside {
		assumptions = append(assumptions, "outside the claim: "+o)
	}
	status := "held"
	if violations > 0 {
		status = "violated"
	} else if len(faults) > 0 || len(incon) > 0 {
		status = "inconclusive"
	}
	ev := map[string]interface{}{
		"property_id": id, "tier": tier, "seed": seed, "level": "other",
		"coverage": map[string]interface{}{
			"explanation":         expl,
			"evaluations":         oblig,
			"distinct_nontrivial": pathsSym,
			"rule":                "evaluations = proof obligations (assertions, bounds/nil/div/alloc/type-assert checks, unwinding checks) generated along all explored paths, each decided by an SMT query (or folded to a constant by the term simplifier); distinct_nontrivial = distinct control-flow paths that took at least one branch on a symbolic condition with both sides feasible",
			"obligations":         oblig,
			"discharged":          dis,
			"sat_obligations":     sat,
			"paths":               paths,
			"solver_queries":      queries,
			"solver_time_s":       round2(solverS),
			"solver_winners":      winners,
			"package_load_s":      round2(loadS),
			"functions_encoded":   fenc,
			"harnesses":           harnesses,
			"samples":             samples,
			"status":              status,
			"known_findings_hit":  knownHits,
			"inconclusive":        incon,
			"engine_faults":       faults,
			"exhaustive":          false,
			"solvers":             "z3 4.8.12 (reset per query) + cvc5 1.0 (--solve-bv-as-int=sum) portfolio; first definite answer wins, late answers are cross-checked",
		},
		"assumptions": assumptions,
		"wall_s":      round2(wallS),
		"violations":  violations,
	}
	b, _ := json.MarshalIndent(ev, "", " ")
	os.MkdirAll(filepath.Join(verifDir, "evidence"), 0o755)
	os.WriteFile(filepath.Join(verifDir, "evidence", id+".json"), b, 0o644)
	for _, l := range lines {
		fmt.Println(l)
	}
	fmt.Printf("%s %s: harnesses=%d paths=%d obligations=%d discharged=%d violations=%d known=%d queries=%d solver=%.1fs wall=%.1fs status=%s\n",
		id, tier, ran, paths, oblig, dis, violations, knownHits, queries, solverS, wallS, status)
	if violations > 0 {
		return 1
	}
	if len(faults) > 0 || len(incon) > 0 {
		for _, f := range faults {
			fmt.Printf("ENGINE-FAULT property=%s %s\n", id, f)
		}
		for _, f := range incon {
			fmt.Printf("INCONCLUSIVE property=%s %s\n", id, f)
		}
		return 2
	}
	return 0
}

func round2(f float64) float64 { return float64(int(f*100)) / 100 }

func shortFn(s string) string {
	s = strings.ReplaceAll(s, "github.com/shutter-network/rolling-shutter/rolling-shutter/", "")
	s = strings.ReplaceAll(s, "github.com/ethereum/go-ethereum/", "geth/")
	return s
}

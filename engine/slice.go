package main

// Constraint independence slicing (as in KLEE): a query PC ∧ c, where PC is known to be
// satisfiable, is satisfiable iff the constraints of PC that (transitively) share a symbol
// with c, together with c, are satisfiable.

import (
	"sort"
	"sync"
)

var symMu sync.Mutex
var symIDs = map[string]int{}
var symCache = map[int][]int{}

func symID(name string) int {
	if id, ok := symIDs[name]; ok {
		return id
	}
	id := len(symIDs) + 1
	symIDs[name] = id
	return id
}

// symsOf returns the sorted set of symbol ids (variables and UF symbols) of t. Caller holds symMu.
func symsOf(t *Term) []int {
	if s, ok := symCache[t.id]; ok {
		return s
	}
	set := map[int]bool{}
	switch t.Op {
	case "var":
		set[symID("v:"+t.Name)] = true
	case "app":
		set[symID("f:"+t.Name)] = true
	}
	for _, a := range t.Args {
		for _, x := range symsOf(a) {
			set[x] = true
		}
	}
	out := make([]int, 0, len(set))
	for x := range set {
		out = append(out, x)
	}
	sort.Ints(out)
	symCache[t.id] = out
	return out
}

// sliceFor returns the subset of pc relevant to the target terms.
func sliceFor(pc []*Term, targets []*Term) []*Term {
	symMu.Lock()
	defer symMu.Unlock()
	rel := map[int]bool{}
	for _, t := range targets {
		for _, x := range symsOf(t) {
			rel[x] = true
		}
	}
	sets := make([][]int, len(pc))
	for i, c := range pc {
		sets[i] = symsOf(c)
	}
	used := make([]bool, len(pc))
	for changed := true; changed; {
		changed = false
		for i := range pc {
			if used[i] {
				continue
			}
			hit := false
			for _, x := range sets[i] {
				if rel[x] {
					hit = true
					break
				}
			}
			if hit {
				used[i] = true
				changed = true
				for _, x := range sets[i] {
					rel[x] = true
				}
			}
		}
	}
	var out []*Term
	for i, c := range pc {
		if used[i] {
			out = append(out, c)
		}
	}
	return out
}
